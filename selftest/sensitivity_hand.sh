#!/bin/sh
# selftest/sensitivity_hand.sh [name ...] : same as sensitivity.sh for the hand-written single-hunk mutants in
# selftest/mutants/ (index.json). These are sensitivity probes only: they are not claimed to pass the test suite.
cd "$(dirname "$0")/.."
NAMES="$*"
[ -z "$NAMES" ] && NAMES=$(/venv/bin/python -c "import json;print(' '.join(m['name'] for m in json.load(open('selftest/mutants/index.json'))))")
FAIL=0
for name in $NAMES; do
  prop=$(/venv/bin/python -c "import json;print([m['property'] for m in json.load(open('selftest/mutants/index.json')) if m['name']=='$name'][0])")
  scratch=$(mktemp -d /tmp/fv-sens-XXXXXX)
  rsync -a --exclude .git --exclude '__pycache__' /repo/ "$scratch/repo/"
  if ! (cd "$scratch/repo" && patch -p1 -s < /verif/selftest/mutants/$name.diff); then
    echo "$name: patch does not apply"; rm -rf "$scratch"; FAIL=1; continue
  fi
  FACTOSIM_REPO="$scratch/repo" ./check "$prop" --tier quick --no-evidence > "$scratch/out.log" 2>&1
  rc=$?
  n=$(grep -c "^VIOLATION" "$scratch/out.log")
  cls=$(grep "violation classes" "$scratch/out.log" | cut -c1-160)
  expect=$(/venv/bin/python -c "import json;print([m.get('expect','detected') for m in json.load(open('selftest/mutants/index.json')) if m['name']=='$name'][0])")
  if [ "$rc" = 1 ]; then echo "$name: detected ($prop, $n reported) $cls"
  elif [ "$expect" = "not-detected" ]; then echo "$name: not detected, as documented (exit $rc)"
  else echo "$name: NOT detected (exit $rc) $(grep "^$prop quick" $scratch/out.log | cut -c1-120)"; FAIL=1; fi
  rm -rf "$scratch"
done
exit $FAIL
