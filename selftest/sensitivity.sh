#!/bin/sh
# selftest/sensitivity.sh [ID ...] : for each seeded change under /verif/seeded/<ID>/ make a scratch copy of /repo
# outside /repo and /verif, apply the patch there, run the quick check of that property against the copy
# (FACTOSIM_REPO) and expect exit 1; the copy is removed afterwards.  /repo itself is never touched.
cd "$(dirname "$0")/.."
IDS="$*"
[ -z "$IDS" ] && IDS=$(ls seeded)
FAIL=0
for id in $IDS; do
  # meta.json may say which check is expected to flag the change ("check_with": {"property": .., "args": ..})
  # and what is expected ("expect": "detected" | "not-detected", the latter for a documented blind spot)
  prop=$(/venv/bin/python -c "import json;m=json.load(open('seeded/$id/meta.json'));print((m.get('check_with') or {}).get('property') or m['property'])")
  args=$(/venv/bin/python -c "import json;m=json.load(open('seeded/$id/meta.json'));print((m.get('check_with') or {}).get('args') or '')")
  expect=$(/venv/bin/python -c "import json;m=json.load(open('seeded/$id/meta.json'));print(m.get('expect') or 'detected')")
  scratch=$(mktemp -d /tmp/fv-sens-XXXXXX)
  rsync -a --exclude .git --exclude '__pycache__' /repo/ "$scratch/repo/"
  if ! (cd "$scratch/repo" && patch -p1 -s < /verif/seeded/$id/patch.diff); then
    echo "$id: patch does not apply to the current tree"; rm -rf "$scratch"; FAIL=1; continue
  fi
  # shellcheck disable=SC2086
  FACTOSIM_REPO="$scratch/repo" ./check "$prop" --tier quick --no-evidence $args > "$scratch/out.log" 2>&1
  rc=$?
  n=$(grep -c "^VIOLATION" "$scratch/out.log")
  if [ "$rc" = 1 ]; then echo "$id: detected (property $prop $args, $n violations reported)"
  elif [ "$expect" = "not-detected" ]; then echo "$id: not detected, as documented (exit $rc)"
  else echo "$id: NOT detected (exit $rc)"; FAIL=1; fi
  rm -rf "$scratch"
done
exit $FAIL
