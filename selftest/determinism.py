#!/venv/bin/python
"""Determinism self-test of the simulator: every run seed is executed twice, in two different
worker pools (different worker counts, the master under another PYTHONHASHSEED via re-exec), and
the event/result digests must be identical.

usage: selftest/determinism.py [--seeds N] [--props C01,C03,...]
exit 0 = all digests identical; exit 1 = a divergence (printed with the seed)."""
import argparse
import json
import os
import sys

HERE = os.path.dirname(os.path.dirname(os.path.abspath(__file__)))
sys.path.insert(0, HERE)
os.environ.setdefault("PYTHONPATH", HERE + os.pathsep + "/repo")

from factosim import engine, main as fmain, rng  # noqa: E402


def run(props, n_seeds, workers, hs):
    pool = engine.Pool(hs, workers)
    try:
        tasks = []
        tid = 0
        for prop in props:
            for i in range(n_seeds):
                tasks.append({"id": tid, "prop": prop, "kind": "gen", "seed": rng.derive("det", prop, i),
                              "tier": "quick", "hashseed": hs[i % len(hs)], "exclude": []})
                tid += 1
        ans = pool.run_all(tasks)
    finally:
        pool.close()
    return {(t["prop"], t["seed"]): (ans.get(t["id"]) or {}).get("digest") for t in tasks}, \
        {(t["prop"], t["seed"]): (ans.get(t["id"]) or {}).get("result", {}).get("status") for t in tasks}


def main():
    ap = argparse.ArgumentParser()
    ap.add_argument("--seeds", type=int, default=24)
    ap.add_argument("--props", default="C01,C03,C04,C05,C08,C10,C16")
    args = ap.parse_args()
    props = args.props.split(",")
    hs = fmain.hashseeds_for(fmain.DEFAULT_SEED, 4)
    a, sa = run(props, args.seeds, 4, hs)
    b, sb = run(props, args.seeds, 16, hs)
    bad = [k for k in a if a[k] != b[k] or a[k] is None]
    print(json.dumps({"runs": len(a), "props": props, "diverged": len(bad),
                      "statuses": {s: list(sa.values()).count(s) for s in set(sa.values())}}))
    for k in bad[:10]:
        print("DIVERGED", k, a[k], b[k], sa[k], sb[k])
    return 1 if bad else 0


if __name__ == "__main__":
    sys.exit(main())
