"""Seeded generators (all draws go through a Chooser = choice tape).

Common pieces: swarm configuration, compile options + fault plan, input declarations with
domains, scalar expression DAGs (G_scalar), input histories.
"""
from __future__ import annotations

from . import lang
from .lang import CMP_OPS
from .rng import Chooser

_CMPFOLD = {
    "==": lambda a, b: a == b, "!=": lambda a, b: a != b, "<": lambda a, b: a < b,
    "<=": lambda a, b: a <= b, ">": lambda a, b: a > b, ">=": lambda a, b: a >= b,
}
_PYFOLD = {
    "+": lambda a, b: a + b,
    "-": lambda a, b: a - b,
    "*": lambda a, b: a * b,
    "/": lambda a, b: a // b,
    "%": lambda a, b: a % b,
    "**": lambda a, b: a**b if 0 <= b <= 64 else None,
    "<<": lambda a, b: (a << b) & 0xFFFFFFFF if 0 <= b < 32 else 0,
    ">>": lambda a, b: a >> b if 0 <= b < 32 else 0,
    "AND": lambda a, b: a & b,
    "OR": lambda a, b: a | b,
    "XOR": lambda a, b: a ^ b,
}

VIRTUALS = ["signal-A", "signal-B", "signal-C", "signal-D", "signal-E", "signal-X", "signal-Y",
            "signal-Z", "signal-1", "signal-2", "signal-red", "signal-green", "signal-dot",
            "signal-info", "signal-check"]
MORE_VIRTUALS = [f"signal-{c}" for c in "FGHIJKLMNOPQRSTUV"] + [f"signal-{d}" for d in "03456789"] + [
    "signal-blue", "signal-yellow", "signal-pink", "signal-cyan", "signal-white", "signal-grey", "signal-black"]
ITEMS = ["iron-plate", "copper-plate", "coal", "steel-plate", "iron-ore", "electronic-circuit"]
FLUIDS = ["water", "crude-oil", "steam"]
ALL_TYPES = VIRTUALS + ITEMS + FLUIDS

DOMAINS = {
    "any": (-(1 << 31), (1 << 31) - 1),
    "small": (-60, 60),
    "nonneg": (0, 1000),
    "shift": (0, 31),
    "exp": (0, 8),
    "bool": (0, 1),
}


# --------------------------------------------------------------------------- options / faults
def gen_options(ch: Chooser, *, allow_poles=True, allow_noopt=True) -> dict:
    opts = {"optimize": True, "poles": None, "retries": 3}
    if allow_noopt and ch.chance(1, 4):
        opts["optimize"] = False
    if allow_poles and ch.chance(1, 6):
        opts["poles"] = ch.pick(["medium", "small", "big", "substation"])
    if ch.chance(1, 8):
        opts["retries"] = ch.rint(0, 2)
    return opts


def gen_plan(ch: Chooser, *, heavy: bool = False) -> dict:
    """Compile-side fault schedule.  ~70 % of runs get a normal compact layout."""
    mode = ch.weighted([
        (14 if not heavy else 6, "det"),
        (2, "first"),
        (2, "unknown_first"),
        (2 if not heavy else 6, "perturb"),
        (1, "unknown_all"),
    ])
    plan: dict = {"solver": {"mode": mode, "seed": ch.draw(1 << 16)}}
    s = plan["solver"]
    s["budget"] = ch.pick([0.05, 0.02, 0.005, 0.002, 0.1])
    if mode == "unknown_first":
        s["k"] = ch.rint(1, 5)
    if mode == "perturb":
        s["spread"] = ch.pick([12, 20, 30, 45, 70])
        s["first"] = ch.chance(1, 2)
    if ch.chance(1, 10):
        n = ch.rint(1, 3)
        plan["route_fail"] = sorted({ch.draw(12) for _ in range(n)})
    return plan


# --------------------------------------------------------------------------- scalar programs
class Ctx:
    """What a generator knows about the names declared so far."""

    def __init__(self):
        self.inputs: list[dict] = []   # {name, type, init, dom}
        self.ints: dict[str, int] = {}
        self.consts: dict[str, int] = {}     # named Signals whose expression is constant-only
        self.sigs: list[str] = []      # all signal names (inputs + derived)
        self.typed: list[str] = []     # signal names whose type is known to the language rules
        self.stmts: list = []
        self.thresholds: set[int] = set()
        self.n = 0

    def fresh(self, p: str) -> str:
        self.n += 1
        return f"{p}{self.n}"


class ScalarGen:
    def __init__(self, ch: Chooser, feat: dict | None = None):
        self.ch = ch
        self.c = Ctx()
        f = {
            "ops_arith": True, "ops_bit": True, "ops_shift": True, "ops_pow": True,
            "cmp": True, "logic": True, "sel": True, "proj": True, "typelit": True,
            "neg": True, "not": True, "ints": True, "untyped": True, "items": True,
            "divmod": True, "bases": True, "same_type_inputs": True, "fresh_types": False,
        }
        if feat:
            f.update(feat)
        self.f = f
        self._fresh_used: set = set()

    # ---- swarm
    @staticmethod
    def swarm(ch: Chooser) -> dict:
        keys = ["ops_bit", "ops_shift", "ops_pow", "cmp", "logic", "sel", "proj", "typelit",
                "neg", "not", "ints", "untyped", "items", "divmod", "bases", "same_type_inputs"]
        # each feature on with probability 3/4 (tape 0 -> off -> simpler)
        f = {k: ch.chance(3, 4) for k in keys}
        # every named result on a type of its own (keeps programs clear of same-type sums on shared
        # networks, i.e. of the structure of the crosstalk finding): on in a third of the runs
        f["fresh_types"] = ch.chance(1, 3)
        f["folded_consts"] = ch.chance(1, 3)
        return f

    # ---- declarations
    def type_pool(self):
        return ALL_TYPES if self.f["items"] else VIRTUALS

    def add_input(self, dom: str = None, type_: str = None) -> str:
        ch, c = self.ch, self.c
        if dom is None:
            dom = ch.weighted([(4, "small"), (3, "any"), (2, "nonneg"), (1, "bool")])
        if type_ is None:
            if c.inputs and self.f["same_type_inputs"] and ch.chance(1, 5):
                type_ = ch.pick(c.inputs)["type"]
            else:
                type_ = ch.pick(self.type_pool())
        lo, hi = DOMAINS[dom]
        init = ch.i32_biased(lo, hi)
        name = c.fresh("i")
        c.inputs.append({"name": name, "type": type_, "init": init, "dom": dom})
        c.stmts.append(["decl", "Signal", name, ["siglit", type_, ["lit", init, 10]]])
        c.sigs.append(name)
        c.typed.append(name)
        return name

    def add_int(self) -> str:
        ch, c = self.ch, self.c
        v = ch.i32_biased(-1000, 1000)
        name = c.fresh("k")
        c.ints[name] = v
        c.stmts.append(["decl", "int", name, self.lit(v)])
        return name

    def lit(self, v: int):
        base = 10
        if v >= 0 and self.f["bases"] and self.ch.chance(1, 5):
            base = self.ch.pick([16, 2, 8])
        return ["lit", v, base]

    def input_with_dom(self, dom: str) -> str:
        for i in self.c.inputs:
            if i["dom"] == dom:
                return i["name"]
        return self.add_input(dom)

    # ---- expressions
    def const_int(self, lo=-100, hi=100):
        """Constant int operand: literal or declared int."""
        ch, c = self.ch, self.c
        ok = [k for k, v in c.ints.items() if lo <= v <= hi]
        if ok and ch.chance(1, 4):
            return ["var", ch.pick(ok)]
        v = ch.i32_biased(lo, hi)
        self.c.thresholds.add(v)
        return self.lit(v)

    def sig_leaf(self):
        return ["var", self.ch.pick(self.c.sigs)]

    def operand(self, depth: int):
        """A scalar operand: signal expression (mostly) or constant int."""
        ch = self.ch
        if depth <= 0 or ch.chance(2, 5):
            if self.f["ints"] and ch.chance(1, 4):
                return self.const_int()
            return self.sig_leaf()
        return self.expr(depth - 1)

    def sig_operand(self, depth: int):
        ch = self.ch
        if depth <= 0 or ch.chance(2, 5):
            return self.sig_leaf()
        return self.expr(depth - 1)

    def simple_cmp(self):
        """Comparison over simple operands (variable or literal) - foldable."""
        ch = self.ch
        a = self.sig_leaf()
        b = self.const_int() if ch.chance(2, 3) else self.sig_leaf()
        if ch.chance(1, 8):
            a, b = b, a
            if a[0] != "var" or a[1] not in self.c.sigs:
                a, b = b, a
        return ["bin", ch.pick(CMP_OPS), a, b]

    def boolish(self, depth: int):
        """Operands that look like 0/1 values to an optimiser but need not be: comparisons, !x,
        parity / low-bit tests, products with a comparison, identity arithmetic on them."""
        ch = self.ch
        k = ch.weighted([(4, "cmp"), (2, "not"), (3, "mod2"), (2, "and1"), (1, "prod"), (1, "ident"),
                         (1, "div"), (1, "shr31")])
        x = self.sig_leaf() if ch.chance(2, 3) else self.sig_operand(max(0, depth - 1))
        if k == "cmp":
            return self.simple_cmp()
        if k == "not":
            return ["not", x]
        if k == "mod2":
            return ["bin", "%", x, ["lit", ch.pick([2, 2, -2, 3]), 10]]
        if k == "and1":
            return ["bin", "AND", x, ["lit", ch.pick([1, 1, 3, -1]), 10]]
        if k == "prod":
            return ["bin", "*", self.simple_cmp(), x if ch.chance(1, 2) else self.simple_cmp()]
        if k == "ident":
            return ["bin", ch.pick(["+", "-", "*", "/"]), self.simple_cmp(), ["lit", ch.pick([0, 1]), 10]]
        if k == "div":
            return ["bin", "/", x, x]
        return ["bin", ">>", x, ["lit", 31, 10]]

    def condition(self):
        """Condition usable before ':'"""
        ch = self.ch
        k = ch.weighted([(5, "simple"), (3 if self.f["logic"] else 0, "compound"), (1, "named")])
        if k == "simple":
            return self.simple_cmp()
        if k == "compound":
            op = ch.pick(["&&", "||"])
            n = ch.rint(2, 3)
            e = self.simple_cmp()
            for _ in range(n - 1):
                e = ["bin", op, e, self.simple_cmp()]
            return e
        # named condition: a previously declared comparison result
        name = self.c.fresh("c")
        self.c.stmts.append(["decl", "Signal", name, self.simple_cmp()])
        self.c.sigs.append(name)
        return ["var", name]

    def expr(self, depth: int):
        """An expression whose constant-only parts stay where folder and combinators agree."""
        return self._domain_guard(self._expr_raw(depth))

    # C11 (compile-time arithmetic == run-time arithmetic) is not claimed: a constant-only
    # sub-expression (literals, ints, typed literals of them) is only generated where the
    # compiler's folders (Python `//`, `%`, unbounded products, masked `<<`) and the 32-bit
    # run-time arithmetic give the same value; otherwise one side becomes a wire value.
    def _cval(self, e):
        k = e[0]
        if k == "lit":
            return e[1]
        if k == "var":
            if e[1] in self.c.ints:
                return self.c.ints[e[1]]
            return self.c.consts.get(e[1])
        if k in ("siglit", "siglitt"):
            return self._cval(e[2])
        if k in ("proj", "projt"):
            return self._cval(e[1])
        if k == "neg":
            v = self._cval(e[1])
            return None if v is None else -v
        if k == "bin" and e[1] in _PYFOLD:
            a, b = self._cval(e[2]), self._cval(e[3])
            if a is None or b is None:
                return None
            try:
                return _PYFOLD[e[1]](a, b)
            except (ZeroDivisionError, OverflowError, ValueError):
                return None
        if k == "bin" and e[1] in _CMPFOLD:
            a, b = self._cval(e[2]), self._cval(e[3])
            if a is None or b is None:
                return None
            return int(_CMPFOLD[e[1]](a, b))
        if k == "sel":
            c_ = self._cval(e[1])
            if c_ is None:
                return None
            return self._cval(e[2]) if c_ else 0
        return None

    def _domain_guard(self, e):
        from .world import arith

        lo, hi = -(1 << 31), (1 << 31) - 1
        def runtime_leaf():
            names = [n for n in self.c.sigs if n not in self.c.consts] or self.c.sigs
            return ["var", self.ch.pick(names)]

        if e[0] == "neg":
            v = self._cval(e[1])
            if v is not None and not (lo <= -v <= hi):
                return ["neg", runtime_leaf()]
            return e
        if e[0] != "bin" or e[1] not in _PYFOLD:
            return e
        a, b = self._cval(e[2]), self._cval(e[3])
        if a is None or b is None:
            return e
        ok = lo <= a <= hi and lo <= b <= hi
        if ok:
            try:
                folded = _PYFOLD[e[1]](a, b)
                ok = folded == arith("^" if e[1] == "**" else e[1], a, b)
            except (ZeroDivisionError, OverflowError, ValueError):
                ok = False
        if ok and e[1] in ("**", "<<", ">>") and not (0 <= b <= 31):
            ok = False
        if ok:
            return e
        return ["bin", e[1], runtime_leaf(), e[3]]

    def _expr_raw(self, depth: int):
        ch, f = self.ch, self.f
        kinds = [(8, "arith")]
        if f["ops_bit"]:
            kinds.append((2, "bit"))
        if f["ops_shift"]:
            kinds.append((2, "shift"))
        if f["ops_pow"]:
            kinds.append((1, "pow"))
        if f["cmp"]:
            kinds.append((3, "cmp"))
        if f["logic"]:
            kinds.append((3, "logic"))
        if f["sel"]:
            kinds.append((3, "sel"))
        if f["proj"]:
            kinds.append((2, "proj"))
        if f["typelit"]:
            kinds.append((1, "typelit"))
        if f["neg"]:
            kinds.append((1, "neg"))
        if f["not"]:
            kinds.append((1, "not"))
        k = ch.weighted(kinds)
        if k == "arith":
            ops = ["+", "-", "*"] + (["/", "%"] if f["divmod"] else [])
            op = ch.pick(ops)
            a, b = self.operand(depth), self.operand(depth)
            if a[0] in ("lit",) and b[0] == "lit":
                a = self.sig_leaf()
            if self._is_const(a) and self._is_const(b):
                a = self.sig_leaf()
            return ["bin", op, a, b]
        if k == "bit":
            a, b = self.sig_operand(depth), self.operand(depth)
            return ["bin", ch.pick(["AND", "OR", "XOR"]), a, b]
        if k == "shift":
            a = self.sig_operand(depth)
            if ch.chance(2, 3):
                b = ["lit", ch.rint(0, 31), 10]
            else:
                b = ["var", self.input_with_dom("shift")]
            return ["bin", ch.pick(["<<", ">>"]), a, b]
        if k == "pow":
            a = self.sig_operand(depth)
            if ch.chance(2, 3):
                b = ["lit", ch.rint(0, 5), 10]
            else:
                b = ["var", self.input_with_dom("exp")]
            return ["bin", "**", a, b]
        if k == "cmp":
            a, b = self.sig_operand(depth), self.operand(depth)
            return ["bin", ch.pick(CMP_OPS), a, b]
        if k == "logic":
            if ch.chance(2, 3):
                a, b = self.boolish(depth), self.boolish(depth)
            else:
                a, b = self.sig_operand(depth), self.sig_operand(depth)
            return ["bin", ch.pick(["&&", "||"]), a, b]
        if k == "sel":
            cond = self.condition()
            vk = ch.weighted([(4, "var"), (2, "lit"), (2, "expr")])
            if vk == "var":
                val = self.sig_leaf()
            elif vk == "lit":
                val = self.lit(ch.i32_biased(-1000, 1000))
            else:
                val = self.expr(max(0, depth - 1))
            return ["sel", cond, val]
        if k == "proj":
            a = self.sig_operand(depth)
            if self.c.typed and ch.chance(1, 4):
                return ["projt", a, ch.pick(self.c.typed)]
            return ["proj", a, ch.pick(self.type_pool())]
        if k == "typelit":
            v = self.const_int(-1000, 1000)
            if self.c.typed and ch.chance(1, 3):
                return ["siglitt", ch.pick(self.c.typed), v]
            return ["siglit", ch.pick(self.type_pool()), v]
        if k == "neg":
            return ["neg", self.sig_operand(depth)]
        return ["not", self.sig_operand(depth)]

    def _is_const(self, e) -> bool:
        if e[0] == "lit":
            return True
        if e[0] == "var" and e[1] in self.c.ints:
            return True
        return False

    # ---- whole program
    def program(self, n_inputs: int, n_stmts: int, max_depth: int = 3):
        ch, c = self.ch, self.c
        for _ in range(n_inputs):
            self.add_input()
        if self.f["ints"]:
            for _ in range(ch.rint(0, 2)):
                self.add_int()
        if self.f["untyped"] and ch.chance(1, 3):
            name = c.fresh("u")
            c.stmts.append(["decl", "Signal", name, self.lit(ch.i32_biased(-100, 100))])
            c.sigs.append(name)
        if self.f.get("folded_consts"):
            # named values the IR optimiser folds (never user-declared constants): later statements
            # read them, some folding further, some at run time
            for _ in range(ch.rint(1, 2)):
                for _try in range(8):
                    v = ch.i32_biased(-100, 100)
                    t = ch.pick(self.type_pool())
                    left = ["proj", self.lit(v), t] if ch.chance(1, 2) else ["siglit", t, self.lit(v)]
                    ops = ["+", "-", "*"] + (["/", "%"] if self.f["divmod"] else [])
                    e = ["bin", ch.pick(ops), left, self.lit(ch.i32_biased(-20, 20))]
                    if self._domain_guard(e) is e:
                        break
                else:
                    continue
                name = c.fresh("z")
                c.stmts.append(["decl", "Signal", name, e])
                c.sigs.append(name)
                c.consts[name] = self._cval(e)
        for _ in range(n_stmts):
            e = self.expr(ch.rint(0, max_depth))
            if self.f.get("fresh_types"):
                used = {i["type"] for i in c.inputs} | self._fresh_used
                free = [t for t in VIRTUALS + MORE_VIRTUALS if t not in used]
                if free:
                    t = ch.pick(free)
                    self._fresh_used.add(t)
                    e = ["proj", e, t]
            name = c.fresh("s")
            c.stmts.append(["decl", "Signal", name, e])
            c.sigs.append(name)
            if self._cval(e) is not None:
                c.consts[name] = self._cval(e)
            if e[0] in ("proj", "siglit", "projt", "siglitt"):
                c.typed.append(name)
        return c.stmts


def gen_history(ch: Chooser, inputs: list[dict], thresholds, n_steps: int,
                one_at_a_time: bool = False) -> list[dict]:
    """List of steps; each step assigns new values to a subset of inputs."""
    hist = []
    around = sorted(thresholds, key=abs)[:24]
    for _ in range(n_steps):
        if one_at_a_time:
            chosen = [ch.pick(inputs)]
        else:
            chosen = [i for i in inputs if ch.chance(1, 2)] or [ch.pick(inputs)]
        step = {}
        for i in chosen:
            lo, hi = DOMAINS[i["dom"]]
            step[i["name"]] = ch.i32_biased(lo, hi, around=around)
        hist.append(step)
    return hist


def referenced_names(stmts) -> dict[str, int]:
    """How often each name is referenced by an expression (to tell exported from consumed)."""
    cnt: dict[str, int] = {}

    def walk(e):
        if isinstance(e, list):
            if e and isinstance(e[0], list):
                for x in e:
                    walk(x)
            elif e and e[0] == "var":
                cnt[e[1]] = cnt.get(e[1], 0) + 1
            elif e and e[0] in ("projt", "siglitt"):
                # .type access does not consume the signal's value
                walk(e[1] if e[0] == "projt" else e[2])
            elif e and e[0] in ("read", "eout"):
                cnt[e[1]] = cnt.get(e[1], 0) + 1
            else:
                for x in e[1:]:
                    walk(x)

    for s in stmts:
        if s[0] == "decl":
            walk(s[3])
        elif s[0] in ("write",):
            walk(s[2])
            walk(s[3])
        elif s[0] == "latch":
            walk(s[2]); walk(s[3]); walk(s[4])
        elif s[0] in ("enable", "assign"):
            walk(s[2])
        elif s[0] == "expr":
            walk(s[1])
        elif s[0] == "for":
            walk(s[2])
            for k, v in referenced_names(s[3]).items():
                cnt[k] = cnt.get(k, 0) + v
        elif s[0] == "func":
            for k, v in referenced_names(s[3]).items():
                cnt[k] = cnt.get(k, 0) + v
            walk(s[4])
        elif s[0] == "place":
            walk(s[3]); walk(s[4])
    return cnt


__all__ = ["ScalarGen", "gen_options", "gen_plan", "gen_history", "referenced_names", "lang"]


def loader_program(ch: Chooser):
    """Balanced-loader style program (MadZuri pattern): n containers whose outputs are summed,
    averaged and compared per container; entity outputs reused in several merges."""
    n = ch.rint(2, 4)
    stmts: list = []
    cont = ch.pick(["steel-chest", "iron-chest", "wooden-chest"])
    y0 = ch.rint(-3, 3)
    for i in range(n):
        stmts.append(["place", f"chest{i + 1}", cont, ["lit", i, 10], ["lit", y0, 10], None])
    stmts.append(["decl", "Bundle", "total", ["blit", [["eout", f"chest{i + 1}"] for i in range(n)]]])
    div = -n if ch.chance(3, 4) else ch.pick([-2, -3, 2])
    stmts.append(["decl", "Bundle", "neg_avg", ["bin", "/", ["var", "total"], ["lit", div, 10]]])
    for i in range(n):
        stmts.append(["decl", "Bundle", f"diff{i + 1}",
                      ["blit", [["var", "neg_avg"], ["eout", f"chest{i + 1}"]]]])
    ins = ch.pick(["fast-inserter", "inserter"])
    for i in range(n):
        stmts.append(["place", f"load{i + 1}", ins, ["lit", i, 10], ["lit", y0 - 1, 10], None])
        q = ch.pick(["all", "any"])
        op = ch.pick(["<", ">", "<=", ">="])
        stmts.append(["enable", f"load{i + 1}", ["bin", op, [q, ["var", f"diff{i + 1}"]], ["lit", ch.rint(-2, 2), 10]]])
    return stmts, n


# ------------------------------------------------------------------------------ claimed domain
def in_claimed_domain(stmts, lit_decls_const: bool = False) -> bool:
    """True if no constant-only sub-expression of the program leaves the domain where the
    compiler's folders and the 32-bit run-time arithmetic agree (C11 is not claimed).  The
    generators only build such programs; the structural shrinker must not leave the domain either,
    or a minimised case would show a different (unclaimed) disagreement than the one it shrinks."""
    from .world import arith

    lo, hi = -(1 << 31), (1 << 31) - 1
    consts: dict = {}
    ok = [True]

    def cval(e):
        if not isinstance(e, list) or not e or not isinstance(e[0], str):
            return None
        k = e[0]
        if k == "lit":
            return e[1]
        if k == "var":
            return consts.get(e[1])
        if k in ("siglit", "siglitt"):
            return cval(e[2])
        if k in ("proj", "projt"):
            return cval(e[1])
        if k == "neg":
            v = cval(e[1])
            if v is not None and not (lo <= -v <= hi):
                ok[0] = False
            return None if v is None else -v
        if k == "bin":
            a, b = cval(e[2]), cval(e[3])
            if a is None or b is None:
                return None
            if e[1] in _CMPFOLD:
                return int(_CMPFOLD[e[1]](a, b))
            if e[1] not in _PYFOLD:
                return None
            good = lo <= a <= hi and lo <= b <= hi
            folded = None
            if good:
                try:
                    folded = _PYFOLD[e[1]](a, b)
                    good = folded == arith("^" if e[1] == "**" else e[1], a, b)
                except (ZeroDivisionError, OverflowError, ValueError):
                    good = False
            if good and e[1] in ("**", "<<", ">>") and not (0 <= b <= 31):
                good = False
            if not good:
                ok[0] = False
                return None
            return folded
        if k == "bin" and e[1] in _CMPFOLD:
            a, b = cval(e[2]), cval(e[3])
            if a is None or b is None:
                return None
            return int(_CMPFOLD[e[1]](a, b))
        if k == "sel":
            c_ = cval(e[1])
            if c_ is None:
                cval(e[2])
                return None
            return cval(e[2]) if c_ else 0
        for x in e[1:]:
            if isinstance(x, list):
                cval(x)
        return None

    def walk(e):
        if isinstance(e, list) and e:
            if isinstance(e[0], str) and e[0] in ("bin", "neg", "proj", "projt", "siglit", "siglitt", "sel",
                                                   "not", "call", "blit", "bsel", "any", "all"):
                cval(e)
                for x in e[1:]:
                    if isinstance(x, list):
                        walk(x)
            else:
                for x in e:
                    if isinstance(x, list):
                        walk(x)

    def block(sts):
        for s_ in sts:
            if s_[0] == "decl" and s_[1] in ("int", "Signal"):
                walk(s_[3])
                v = cval(s_[3])
                # `Signal a = 5;` / `Signal a = ("t", 5);` declare circuit inputs: the compiler
                # never folds through them
                declared_input = s_[1] == "Signal" and s_[3][0] in ("lit", "siglit", "siglitt")
                if lit_decls_const and s_[3][0] == "lit":
                    # an inlined twin: `Signal x = 3;` stands for a literal ARGUMENT of the call
                    # build, where everything computed from it is folded
                    declared_input = False
                if v is not None and not declared_input:
                    consts[s_[2]] = v
            elif s_[0] == "for":
                block(s_[3])
            elif s_[0] == "func":
                block(s_[3])
                if s_[4] is not None:
                    walk(s_[4])
            else:
                walk(s_[1:])

    try:
        block(stmts)
    except Exception:
        return True
    return ok[0]
