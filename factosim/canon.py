"""Canonical logical circuit of a blueprint: positions, relay poles and numbering erased.

entity  = (prototype, configuration record)           [poles are contracted away]
network = set of (entity, connector) joined by circuit wires, pole paths contracted
hash    = Weisfeiler-Lehman colour refinement over the bipartite entity/network structure.
Isomorphic circuits always hash equal (no false alarm); a collision can only hide a difference.
"""
from __future__ import annotations

import hashlib
import json

from . import gamedata

_DROP = ("entity_number", "position", "player_description")


def _h(x) -> str:
    return hashlib.sha256(json.dumps(x, sort_keys=True, default=str).encode()).hexdigest()[:20]


def entity_record(raw: dict, keep_position: bool) -> str:
    rec = {k: v for k, v in raw.items() if k not in _DROP}
    if keep_position:
        rec["position"] = raw.get("position")
    return _h(rec)


def canonical(bp: dict) -> dict:
    if "blueprint" in bp:
        bp = bp["blueprint"]
    ents = {e["entity_number"]: e for e in bp.get("entities", [])}
    kind = {n: gamedata.kind_of(e["name"]) for n, e in ents.items()}
    parent: dict = {}

    def find(a):
        while parent.setdefault(a, a) != a:
            parent[a] = parent[parent[a]]
            a = parent[a]
        return a

    for w in bp.get("wires", []):
        if len(w) != 4:
            continue
        e1, c1, e2, c2 = w
        if c1 >= 5 or c2 >= 5:
            continue  # copper
        a, b = find((e1, c1)), find((e2, c2))
        if a != b:
            parent[a] = b
    nets: dict = {}
    for key in list(parent):
        if kind.get(key[0]) == "pole":
            continue
        nets.setdefault(find(key), []).append(key)
    nets = {r: m for r, m in nets.items() if len(m) >= 1}
    # user-placed (non-combinator) entities keep their position: the program fixes it
    colour = {}
    for n, e in ents.items():
        if kind[n] == "pole":
            continue
        colour[n] = _h([e["name"], entity_record(e, keep_position=kind[n] == "other")])
    members_of: dict = {}
    for r, m in nets.items():
        for (n, c) in m:
            members_of.setdefault(n, []).append((c, r))
    for _round in range(4):
        net_col = {}
        for r, m in nets.items():
            net_col[r] = _h(sorted([colour[n], c] for (n, c) in m))
        new = {}
        for n in colour:
            new[n] = _h([colour[n], sorted([c, net_col[r]] for (c, r) in members_of.get(n, []))])
        colour = new
    multiset = sorted(colour.values())
    # singleton networks carry no information about the logical circuit
    n_nets = sum(1 for m in nets.values() if len(m) >= 2)
    return {
        "hash": _h([multiset, n_nets]),
        "entities": len(colour),
        "networks": n_nets,
        "configs": sorted(_h([ents[n]["name"], entity_record(ents[n], kind[n] == "other")])
                          for n in colour),
    }
