"""Static (program-text) triggers of known findings.

A structural recogniser (diagnose.py) looks at the emitted blueprint; on its own it would also
hide a *new* defect whose symptom is the same structure (a change that fuses two networks creates
exactly the picture of KF-crosstalk).  Checks therefore exclude a run only when BOTH hold: the
program has a shape that can trigger the known defect (decided here, on the text, before anything
is compiled) and the blueprint shows the structure.

`crosstalk_possible` over-approximates: it may say True for a program the compiler wires cleanly
(then the structural test decides), but it says False only when no value is shared in a way the
known mechanism needs:

    KF-crosstalk: wire colours are chosen per source->sink edge, so a sink S1 that shares a source X
    with another sink S2 also sees every other source Y wired to S2 on that colour.  It matters when
    S1 reads a signal of Y's type.

Needed: a value X with two distinct consumers S1, S2; S2 has another source Y; the type of Y is
among the types S1 reads (unknown types count as matching).
"""
from __future__ import annotations

from . import gamedata, lang

_BUNDLE = {"blit", "bsel", "any", "all", "eout"}
_CMP = set(lang.CMP_OPS)
_LOGIC = {"&&", "||"}


def _has(e, kinds) -> bool:
    if isinstance(e, list) and e:
        if isinstance(e[0], str) and e[0] in kinds:
            return True
        return any(_has(x, kinds) for x in e if isinstance(x, list))
    return False


class _Graph:
    def __init__(self, stmts, inputs):
        self.it = lang.Interp(stmts)
        try:
            self.env = self.it.run({i["name"]: i["init"] for i in inputs}, {})
        except Exception:
            self.env = None
        self.cons: dict = {}
        self.srcs: dict = {}
        self.prod: dict = {}
        self.bprod: dict = {}          # Bundle name -> [(source, type)]
        self.ints = {s[2] for s in stmts if s[0] == "decl" and s[1] == "int"}
        self.n = 0
        self.logic_chain = False
        self.untyped: set = set()

    def typ(self, e):
        if self.env is None:
            return "?"
        if e[0] == "var" and e[1] in self.untyped:
            return "?"          # compiler-chosen signal
        try:
            v = self.it.ev(e, self.env)
        except Exception:
            return "?"
        if isinstance(v, lang.Sig):
            if e[0] == "not" or (e[0] == "bin" and (e[1] in _CMP or e[1] in _LOGIC)):
                # a truth value whose left operand is not on a virtual signal lives on a channel the
                # compiler picks
                lt = self.typ(e[1] if e[0] == "not" else e[2])
                if lt is None or lt == "?" or gamedata.sk(lt)[0] != "virtual":
                    return "?"
            return v.type
        if isinstance(v, int):
            return None
        return "?"

    def fresh(self, kind):
        self.n += 1
        return (kind, self.n)

    def edge(self, src, t, sink):
        if src is None:
            return
        if t is None:
            t = "?"          # a run-time value whose channel the compiler picks
        self.cons.setdefault(src, [])
        if sink not in self.cons[src]:
            self.cons[src].append(sink)
        self.srcs.setdefault(sink, [])
        if (src, t) not in self.srcs[sink]:
            self.srcs[sink].append((src, t))

    def flat_operands(self, e):
        """Operand expressions a consumer may read directly when a comparison / logic child is
        inlined or folded into it."""
        out = []
        if isinstance(e, list) and e and e[0] == "bin" and (e[1] in _CMP or e[1] in _LOGIC):
            for x in (e[2], e[3]):
                out.append(x)
                out += self.flat_operands(x)
        return out

    # ---- bundles: a bundle value is a SET of sources joined by wires (no combinator of its own)
    def is_bundle(self, e) -> bool:
        if not isinstance(e, list) or not e:
            return False
        k = e[0]
        if k == "var":
            return e[1] in self.bprod
        if k in ("blit", "eout"):
            return True
        if k == "bin":
            return self.is_bundle(e[2])
        if k == "sel":
            c = e[1]
            return self.is_bundle(e[2]) or (c[0] == "bin" and self.is_bundle(c[2]))
        return False

    def bsources(self, e):
        """[(source, type)] behind a bundle-valued expression."""
        k = e[0]
        if k == "var":
            return list(self.bprod.get(e[1], []))
        if k == "eout":
            return [(("ent", e[1]), "?")]
        if k == "blit":
            out = []
            for x in e[1]:
                out += self.bsources(x) if self.is_bundle(x) else self.sources_of(x)
            return out
        sid = self.fresh("bop")            # each-arithmetic, filter, gate: one combinator, wildcard reads
        if k == "bin":
            for (s_, _t) in self.bsources(e[2]):
                self.edge(s_, "?", sid)
            for (s_, t_) in self.sources_of(e[3]):
                self.edge(s_, t_, sid)
                self.edge(s_, "?", sid)
        elif k == "sel":
            c = e[1]
            sides = [c[2], c[3]] if c[0] == "bin" else [c]
            for side in sides + [e[2]]:
                if self.is_bundle(side):
                    for (s_, _t) in self.bsources(side):
                        self.edge(s_, "?", sid)
                else:
                    for (s_, t_) in self.sources_of(side):
                        self.edge(s_, t_, sid)
                        self.edge(s_, "?", sid)
        return [(sid, "?")]

    def sources_of(self, e):
        """[(source, type)] a consumer of the value of e is wired to (empty for a plain integer)."""
        k = e[0]
        if self.is_bundle(e):
            return [(s_, "?") for (s_, _t) in self.bsources(e)]
        if k in ("any", "all"):
            return [(s_, "?") for (s_, _t) in self.bsources(e[1])] if self.is_bundle(e[1]) else []
        if k == "bsel":
            # a bare selection reads the bundle's own network, picking one type
            return [(s_, e[2]) for (s_, _t) in self.bsources(e[1])] if self.is_bundle(e[1]) else []
        src = self.source(e)
        return [] if src is None else [(src, self.typ(e))]

    def source(self, e):
        """Source id of the value of a scalar e (None for a plain integer)."""
        k = e[0]
        if k == "lit":
            return None
        if k == "var":
            if e[1] in self.ints:
                return None
            if e[1] in self.prod:
                return self.prod[e[1]]
            return ("in", e[1])
        if k in ("siglit", "siglitt"):
            return self.fresh("k")
        if k == "read":
            return ("mem", e[1])
        if k == "call":
            return self.fresh("call")
        if k == "proj" and self.typ(e[1]) == e[2]:
            return self.source(e[1])        # projection onto its own type: no combinator, an alias
        if k == "projt" and self.typ(e[1]) == self.typ(["var", e[2]]):
            return self.source(e[1])
        sid = self.fresh("op")
        kids = [x for x in e[1:] if isinstance(x, list) and x and isinstance(x[0], str)]
        if k == "bin" and e[1] in _LOGIC and any(
                isinstance(x, list) and x[0] == "bin" and (x[1] in _CMP or x[1] in _LOGIC) for x in (e[2], e[3])):
            self.logic_chain = True
        for x in kids:
            for (s_, t_) in self.sources_of(x):
                self.edge(s_, t_, sid)
            for y in self.flat_operands(x):
                for (s_, t_) in self.leaf_sources(y):
                    self.edge(s_, t_, sid)
        return sid

    def leaf_sources(self, e):
        # operands reached through flattening: leaves only (operators were numbered by source())
        if e[0] in ("var", "read", "any", "all", "bsel"):
            return self.sources_of(e)
        return []

    def sink_stmt(self, sid, exprs):
        for x in exprs:
            if x is None:
                continue
            for (s_, t_) in self.sources_of(x):
                self.edge(s_, t_, sid)
            for y in self.flat_operands(x):
                for (s_, t_) in self.leaf_sources(y):
                    self.edge(s_, t_, sid)


def crosstalk_possible(stmts, inputs) -> bool:
    """False only if the program cannot trigger KF-crosstalk / KF-multi-cond-both-colours."""
    for s in stmts:
        if s[0] in ("for", "func", "import", "raw", "expr"):
            return True
    g = _Graph(stmts, inputs)
    for s in stmts:
        t = s[0]
        if t == "decl" and s[1] == "Signal":
            e = s[3]
            if e[0] == "lit":
                g.prod[s[2]] = g.fresh("k")
                g.untyped.add(s[2])
            elif e[0] in ("siglit", "siglitt") and any(i["name"] == s[2] for i in inputs):
                g.prod[s[2]] = ("in", s[2])
            else:
                g.prod[s[2]] = g.source(e)
                # the output anchor of a named value shows the whole network of its producer
                g.edge(g.prod[s[2]], g.typ(["var", s[2]]), ("a", s[2]))
        elif t == "mem":
            # the cell's own gates read the cell's network
            g.edge(("mem", s[1]), s[2] if isinstance(s[2], str) else "?", ("cell", s[1]))
        elif t == "decl" and s[1] == "Bundle":
            g.bprod[s[2]] = g.bsources(s[3]) if g.is_bundle(s[3]) else g.sources_of(s[3])
            # the anchor of an exported bundle shows everything on its sources' network
            for (s_, _t) in g.bprod[s[2]]:
                g.edge(s_, "?", ("a", s[2]))
        elif t == "decl" and s[1] == "Entity":
            return True
        elif t == "write":
            g.sink_stmt(("w", s[1], g.fresh("w")), [s[2], s[3]])
        elif t == "latch":
            g.sink_stmt(("l", s[1], g.fresh("l")), [x for x in s[2:5] if isinstance(x, list)])
        elif t == "enable":
            g.sink_stmt(("e", s[1], g.fresh("e")), [s[2]])
    if g.logic_chain:
        return True
    # Networks merge transitively: all sources of one sink meet on that sink's input (when they
    # get the same colour), and a source carries that network to every other sink it feeds.
    parent: dict = {}

    def find(a):
        parent.setdefault(a, a)
        while parent[a] != a:
            parent[a] = parent[parent[a]]
            a = parent[a]
        return a

    types: dict = {}
    for sink, lst in g.srcs.items():
        first = None
        for (y, ty) in lst:
            types.setdefault(y, set()).add(ty)
            if first is None:
                first = y
            else:
                parent[find(y)] = find(first)
    comp: dict = {}
    for y in types:
        comp.setdefault(find(y), []).append(y)
    for sink, lst in g.srcs.items():
        own = {y for (y, _t) in lst}
        rt = {t for (_y, t) in lst}
        for y in comp.get(find(lst[0][0]), []):
            if y in own:
                continue
            if "?" in rt or "?" in types[y] or (types[y] & rt):
                return True
    return False
