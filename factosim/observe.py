"""Finding a program's inputs and outputs in the emitted blueprint the way a user does:
by the descriptions the compiler writes on its entities (never through compiler internals)."""
from __future__ import annotations

import re

from . import gamedata
from .world import World

_RE_INPUT = re.compile(r"^(?:\[[^\]]*\]\s+)?(\w+) \(value=(-?\d+) \(input\)\)(?: -> (\S+))?")
_RE_LINE = re.compile(r"^\[[^\]:]*:(\d+)\]")
_RE_ANCHOR = re.compile(r"^(?:\[[^\]]*\]\s+)?(\w+) \(output anchor\)(?: -> (\S+))?")
_RE_ANY = re.compile(r"^(?:\[[^\]]*\]\s+)?(.+?)(?: \(([^()]*(?:\([^()]*\))?[^()]*)\))?(?: -> (\S+))?$")


class Obs:
    """Observation points of one blueprint."""

    def __init__(self, w: World, src: str | None = None):
        """src (optional): the program text; a constant that merely carries an input's NAME (a
        function-local `Signal i3 = x > k;` folded to a constant while an outer input is also
        called i3) is then told apart from the input by the source line in its description."""
        self.w = w
        decl_line: dict[str, int] = {}
        if src is not None:
            for ln, text in enumerate(src.split("\n"), 1):
                m = re.match(r"^Signal (\w+) = ", text)
                if m and m.group(1) not in decl_line:
                    decl_line[m.group(1)] = ln
        self.inputs: dict[str, list[int]] = {}
        self.anchors: dict[str, list[tuple[int, str | None]]] = {}
        self.by_name: dict[str, list[int]] = {}
        for e in w.ents.values():
            d = e.desc
            if not d:
                continue
            if e.kind == "const":
                m = _RE_INPUT.match(d)
                if m:
                    lm = _RE_LINE.match(d)
                    if (m.group(1) in decl_line and lm
                            and int(lm.group(1)) != decl_line[m.group(1)]):
                        self.by_name.setdefault(m.group(1), []).append(e.num)
                        continue
                    self.inputs.setdefault(m.group(1), []).append(e.num)
                    continue
                m = _RE_ANCHOR.match(d)
                if m:
                    self.anchors.setdefault(m.group(1), []).append((e.num, m.group(2)))
                    continue
            m = _RE_ANY.match(d)
            if m:
                self.by_name.setdefault(m.group(1), []).append(e.num)

    def set_input(self, name: str, value: int) -> bool:
        """Drive a declared input. Returns False if the input has no combinator to drive."""
        nums = self.inputs.get(name)
        if not nums:
            return False
        for n in nums:
            e = self.w.ents[n]
            if len(e.keys) != 1:
                raise ValueError(f"input {name} has {len(e.keys)} filters")
            self.w.set_const(n, {e.keys[0]: value})
        return True

    def read_anchor(self, name: str):
        """(signals on the anchor's network, type named in the anchor's label) or None."""
        lst = self.anchors.get(name)
        if not lst:
            return None
        num, t = lst[0]
        return self.w.read(num), t, len(lst)


def sk(name: str):
    return gamedata.sk(name)
