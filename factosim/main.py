"""./check <ID> --tier quick|thorough [--replay FILE]

exit 0  the property held on everything explored (KNOWN-FINDING lines where applicable)
exit 1  + "VIOLATION property=<id> replay=<path>"
exit 2  harness trouble (timeout, worker failure, non-reproducible replay) - never 0, never 1
"""
from __future__ import annotations

import argparse
import json
import os
import sys
import time

from . import engine, rng, shrink

VERIF = engine.VERIF
DEFAULT_SEED = 20260925
KNOWN_FILE = os.path.join(VERIF, "known_findings.json")


def load_known(prop: str) -> list[dict]:
    try:
        with open(KNOWN_FILE) as fh:
            data = json.load(fh)
    except FileNotFoundError:
        return []
    return [f for f in data.get("findings", [])
            if f.get("property") == prop or prop in (f.get("applies_to") or [])]


def hashseeds_for(seed: int, n: int) -> list[int]:
    hs = [0]
    i = 0
    while len(hs) < n:
        v = rng.derive("hashseed", seed, i) % 4294967295 + 1
        i += 1
        if v not in hs:
            hs.append(v)
    return hs


def run_replay(pool_factory, prop: str, path: str) -> tuple[str, dict | None]:
    """Returns (outcome, answer): outcome in reproduced / not-reproduced / harness-error."""
    with open(path) as fh:
        rep = json.load(fh)
    case = rep["case"]
    hsd = case.get("hashseed") or 0
    pool = pool_factory([hsd], 1)
    try:
        ans = pool.run_all([{"id": 1, "prop": prop, "kind": "case", "case": case,
                             "hashseed": hsd, "want_case": False}])
    finally:
        pool.close()
    a = ans.get(1)
    if not a:
        return "harness-error", None
    r = a["result"]
    if r.get("status") in ("harness-error", "harness-timeout"):
        return "harness-error", a
    exp = rep.get("violation") or {}
    if r.get("status") == "violation" and r["violation"]["class"] == exp.get("class"):
        return "reproduced", a
    return "not-reproduced", a


def main(argv=None) -> int:
    ap = argparse.ArgumentParser()
    ap.add_argument("prop")
    ap.add_argument("--tier", default=os.environ.get("VERIF_TIER", "quick"))
    ap.add_argument("--replay")
    ap.add_argument("--runs", type=int)
    ap.add_argument("--seed", type=int)
    ap.add_argument("--workers", type=int, default=int(os.environ.get("FACTOSIM_WORKERS", "16")))
    ap.add_argument("--budget-s", type=float)
    ap.add_argument("--no-shrink", action="store_true")
    ap.add_argument("--no-evidence", action="store_true")
    ap.add_argument("--exclude", default="", help="force exclusion tags (triage only)")
    ap.add_argument("--ignore-known", action="store_true",
                    help="do not replay/exclude known findings (for triage)")
    args = ap.parse_args(argv)
    prop = args.prop.upper()
    tier = args.tier if args.tier in ("quick", "thorough") else "quick"
    mod = engine.prop_module(prop)
    seed = args.seed if args.seed is not None else int(os.environ.get("VERIF_SEED", DEFAULT_SEED))
    t0 = time.monotonic()

    def pool_factory(hs, workers):
        return engine.Pool(hs, workers)

    # ------------------------------------------------------------------ replay mode
    if args.replay:
        outcome, a = run_replay(pool_factory, prop, args.replay)
        if outcome == "reproduced":
            print(json.dumps(a["result"]["violation"], indent=1)[:4000])
            print(f"VIOLATION property={prop} replay={os.path.abspath(args.replay)}")
            return 1
        if outcome == "not-reproduced":
            print(f"NON-REPRODUCIBLE: replay {args.replay} did not reproduce its violation "
                  f"(got status={a['result'].get('status')})")
            return 2
        print("HARNESS-ERROR during replay", a)
        return 2

    cfg = dict(mod.TIERS[tier])
    runs = args.runs or cfg["runs"]
    budget_s = args.budget_s or cfg.get("budget_s", 600)
    n_hs = cfg.get("hashseeds", 4)
    hs = hashseeds_for(seed, n_hs)
    workers = max(args.workers, len(hs))

    # ------------------------------------------------------------------ known findings
    exclude: list[str] = [x for x in args.exclude.split(",") if x]
    known_lines: list[str] = []
    fixed_notes: list[str] = []
    harness_trouble: list[str] = []
    regressions: list[str] = []
    if not args.ignore_known:
        for f in load_known(prop):
            rp = os.path.join(VERIF, f["replay"]) if f.get("replay") else None
            if f.get("status") == "fixed":
                # a fixed entry suppresses nothing: its regression replay must stay clean
                if rp and f.get("property") == prop:
                    outcome, _a = run_replay(pool_factory, f["property"], rp)
                    if outcome == "reproduced":
                        regressions.append(rp)
                    elif outcome == "harness-error":
                        harness_trouble.append(f"regression replay {f['id']} failed to run")
                continue
            outcome, _a = run_replay(pool_factory, f["property"], rp)
            if outcome == "reproduced":
                known_lines.append(f"KNOWN-FINDING: property={prop} {f['what']}")
                if f.get("exclude"):
                    exclude.append(f["exclude"])
            elif outcome == "harness-error":
                harness_trouble.append(f"known-finding replay {f['id']} failed to run")
            else:
                fixed_notes.append(f"note: known finding {f['id']} no longer reproduces")
    for line in known_lines:
        print(line)
    for line in fixed_notes:
        print(line)

    # ------------------------------------------------------------------ exploration
    pool = engine.Pool(hs, workers)
    stats = {
        "runs": 0, "ok": 0, "refused": 0, "violation": 0, "gap": 0, "invalid": 0, "trivial": 0,
        "excluded": 0, "harness": 0, "crash_refusals": 0, "ticks": 0, "compiles": 0,
        "compared": 0,
    }
    fired: dict = {}
    probes: dict = {}
    sigs = set()
    samples = []
    violations = []
    refusal_stages: dict = {}
    vclasses: dict = {}
    excluded_by: dict = {}
    crash_samples: list = []
    odd_refusals: list = []
    faultfree = {"runs": 0, "violations": 0}
    faulty = {"runs": 0, "violations": 0}
    tasks = []
    for i in range(runs):
        s = rng.derive(seed, prop, i)
        tasks.append({"id": i, "prop": prop, "kind": "gen", "seed": s, "tier": tier,
                      "hashseed": hs[i % len(hs)], "exclude": exclude,
                      "want_case": i < 4})
    task_by_id = {t["id"]: t for t in tasks}

    def on_result(ans):
        r = ans["result"]
        st = r.get("status")
        stats["runs"] += 1
        if st in ("harness-error", "harness-timeout"):
            stats["harness"] += 1
            harness_trouble.append(f"run {ans['id']}: {st} {r.get('error', '')} {r.get('trace', '')[-600:]}")
            return
        stats[st] = stats.get(st, 0) + 1
        if st == "excluded":
            eb = str(r.get("excluded_by"))
            excluded_by[eb] = excluded_by.get(eb, 0) + 1
        stats["ticks"] += r.get("ticks", 0)
        stats["compiles"] += r.get("compiles", 0)
        stats["compared"] += r.get("compared", 0)
        for k, v in (r.get("fired") or {}).items():
            fired[k] = fired.get(k, 0) + v
        for k, v in (r.get("probes") or {}).items():
            probes[k] = probes.get(k, 0) + v
        if st == "refused":
            rs = (r.get("refusal") or {}).get("stage", "?")
            refusal_stages[rs] = refusal_stages.get(rs, 0) + 1
            if rs not in ("layout_planning", "crash") and len(odd_refusals) < 3:
                odd_refusals.append({"stage": rs, "error": (r["refusal"].get("error") or "")[:300],
                                     "source": r.get("source")})
            if (r.get("refusal") or {}).get("crash"):
                stats["crash_refusals"] += 1
                if len(crash_samples) < 3:
                    crash_samples.append({"error": r["refusal"].get("error"),
                                          "source": r.get("source")})
        injected = any(k for k in (r.get("fired") or {}) if k not in ("cpsat-det",))
        bucket = faulty if injected else faultfree
        if st in ("ok", "violation"):
            bucket["runs"] += 1
        if st == "ok" and r.get("sig") is not None and r.get("compared", 0) > 0:
            sigs.add(json.dumps(r["sig"], sort_keys=True))
        if st == "violation":
            bucket["violations"] += 1
            violations.append(ans)
            vc = r["violation"]["class"] + (":" + str(r.get("vtag")) if r.get("vtag") else "")
            vclasses[vc] = vclasses.get(vc, 0) + 1
        if ans.get("case") is not None and st == "ok" and len(samples) < 4:
            samples.append({
                "seed": task_by_id[ans["id"]]["seed"],
                "hashseed": ans["case"].get("hashseed"),
                "source": r.get("source") or r.get("sources"),
                "options": ans["case"].get("options"),
                "plan": ans["case"].get("plan"),
                "history": ans["case"].get("history"),
                "compared": r.get("compared"),
                "ticks": r.get("ticks"),
            })

    deadline = time.monotonic() + budget_s
    try:
        answers = pool.run_all(tasks, deadline=deadline, on_result=on_result)
        not_run = runs - len(answers)

        # -------------------------------------------------------------- minimise + report
        reported = []
        seen_classes = set()
        os.makedirs(os.path.join(VERIF, "replays"), exist_ok=True)
        for ans in sorted(violations, key=lambda a: a["id"]):
            vclass = ans["result"]["violation"]["class"]
            if vclass in seen_classes and len(reported) >= 3:
                continue
            if len(reported) >= cfg.get("max_reports", 5):
                break
            seen_classes.add(vclass)
            t = task_by_id[ans["id"]]
            best = ans
            tape = ans.get("tape")
            if tape and not args.no_shrink:
                pool.drain_pending()
                _bt, ba, _used = shrink.shrink(
                    pool, prop, tier, t["hashseed"], tape, vclass,
                    budget=cfg.get("shrink_budget", 60), exclude=exclude)
                if ba is not None and ba.get("case") is not None:
                    best = ba
            case = best.get("case") or ans.get("case")
            if case is not None and not args.no_shrink:
                sc, sa, _u = shrink.structural(pool, prop, case, vclass,
                                               budget=cfg.get("struct_budget", 200))
                if sa is not None:
                    best, case = sa, sc
            path = os.path.join(VERIF, "replays", f"{prop}-{t['seed']}.json")
            with open(path, "w") as fh:
                json.dump({
                    "property": prop, "seed": t["seed"], "verif_seed": seed,
                    "hashseed": t["hashseed"], "case": case,
                    "violation": best["result"]["violation"],
                    "source": best["result"].get("source") or best["result"].get("sources"),
                    "events": best["result"].get("events"),
                    "original_violation": ans["result"]["violation"],
                }, fh, indent=1, default=str)
            reported.append((path, best))
    finally:
        pool.close()

    wall = time.monotonic() - t0
    for rp in regressions:
        print(f"VIOLATION property={prop} replay={rp}")
    for path, best in reported:
        v = best["result"]["violation"]
        src = best["result"].get("source") or best["result"].get("sources")
        print("---- minimised failing case ----")
        if isinstance(src, str):
            print(src.rstrip())
        elif src:
            print(json.dumps(src, indent=1)[:3000])
        print(json.dumps(v, default=str)[:1500])
        print(f"VIOLATION property={prop} replay={path}")

    # ------------------------------------------------------------------ evidence
    nontrivial = len(sigs)
    low_reach = [p for p in getattr(mod, "EXPECTED_PROBES", []) if not probes.get(p)]
    if tier == "thorough":
        for p in low_reach:
            print(f"LOW-REACH: probe {p} stayed at zero")
    refused_frac = stats["refused"] / max(1, stats["runs"])
    underpowered = refused_frac > 0.30
    if underpowered:
        print(f"UNDER-POWERED: {stats['refused']} of {stats['runs']} runs were compile refusals")
    evidence = {
        "property_id": prop,
        "tier": tier,
        "seed": seed,
        "level": "exploration",
        "coverage": {
            "evaluations": max(1, stats["runs"]),
            "distinct_nontrivial": nontrivial,
            "rule": getattr(mod, "RULE", ""),
            "samples": samples or [{"note": "no passing sample recorded"}],
            "runs_not_executed_before_deadline": max(0, not_run),
            "outcomes": {k: stats[k] for k in ("ok", "refused", "violation", "gap", "invalid",
                                               "trivial", "excluded", "harness")},
            "refusal_stages": refusal_stages,
            "compiler_crash_refusals": stats["crash_refusals"],
            "compiler_crash_samples": crash_samples,
            "front_end_refusal_samples": odd_refusals,
            "compiles": stats["compiles"],
            "simulated_ticks": stats["ticks"],
            "observations_compared": stats["compared"],
            "fault_kinds_fired": fired,
            "reach_probes": probes,
            "low_reach_probes": low_reach,
            "fault_free_runs": faultfree,
            "fault_injected_runs": faulty,
            "model_gaps": stats["gap"],
            "hash_seeds": hs,
            "workers": workers,
            "runs_per_hour": int(stats["runs"] / max(wall, 1e-6) * 3600),
            "known_findings_reproduced": known_lines,
            "excluded_patterns_active": exclude,
            "excluded_runs_by_pattern": excluded_by,
            "underpowered": underpowered,
            "real_components": getattr(mod, "REAL", engine_real()),
            "stub_components": getattr(mod, "STUB", engine_stub()),
            "exhaustive": False,
        },
        "assumptions": getattr(mod, "ASSUMPTIONS", DEFAULT_ASSUMPTIONS),
        "wall_s": round(wall, 2),
        "violations": len(reported) + len(regressions),
    }
    if not args.no_evidence:
        os.makedirs(os.path.join(VERIF, "evidence"), exist_ok=True)
        with open(os.path.join(VERIF, "evidence", f"{prop}.json"), "w") as fh:
            json.dump(evidence, fh, indent=1, default=str)

    print(f"{prop} {tier}: runs={stats['runs']} ok={stats['ok']} refused={stats['refused']} "
          f"violations={stats['violation']} gaps={stats['gap']} invalid={stats['invalid']} "
          f"excluded={stats['excluded']} trivial={stats['trivial']} harness={stats['harness']} "
          f"distinct={nontrivial} ticks={stats['ticks']} wall={wall:.1f}s")
    print("fired:", json.dumps(fired, sort_keys=True))
    print("probes:", json.dumps(probes, sort_keys=True))
    if excluded_by:
        print("excluded by:", json.dumps(excluded_by, sort_keys=True))
    if vclasses:
        print("violation classes:", json.dumps(vclasses, sort_keys=True))
    if refusal_stages:
        print("refusals:", json.dumps(refusal_stages, sort_keys=True))
    for c in crash_samples:
        print("compiler crash (counted as refusal):", c["error"])
    for c in odd_refusals:
        print("front-end refusal of a generated program:", c["stage"], c["error"][:200])

    if reported or regressions:
        return 1
    if harness_trouble:
        for h in harness_trouble[:5]:
            print("HARNESS:", h)
        return 2
    if nontrivial < 2:
        print("HARNESS: fewer than 2 distinct non-trivial runs - nothing was really checked")
        return 2
    return 0


DEFAULT_ASSUMPTIONS = [
    "the Factorio 2.0 circuit-network model in /verif/factosim/world.py (written from documentation) is the trusted stand-in for the game engine",
    "game data (collision boxes, wire reach, signal types) is read from the data shipped with draftsman",
    "sampling, not enumeration: a clean batch is evidence, not proof",
]


def engine_real():
    return ["preprocessor", "Lark grammar + transformer", "semantic analyser", "lowerers",
            "IR optimisers", "signal analyser", "entity placer", "memory builder",
            "connection planner / wire router / relay network", "power planner", "emitter",
            "draftsman export", "CP-SAT (deterministic single-worker modes)"]


def engine_stub():
    return ["Factorio game engine (world model)", "CP-SAT wall clock / thread pool (replaced by "
            "deterministic time, one worker, seeded)", "solver outcomes under injected faults "
            "(UNKNOWN results, perturbed-objective feasible points)"]


if __name__ == "__main__":
    sys.exit(main())
