"""C12 - independent computations do not interfere.

P and Q come from the scalar, gated-cell, latch and entity families with disjoint names but
overlapping signal types and constants and nearby user entities.  A seeded interleaving of their
statements (each program's own order preserved) is compiled together and each program alone,
every build under its own fault plan.  Q's inputs are driven through a history while P's are
held, and vice versa: P's observations in build(P;Q) must equal those of build(P) at every
settle point (and likewise for Q) - any difference is crosstalk."""
from __future__ import annotations

import copy

from .. import gamedata, gen, lang
from ..rng import Chooser
from . import c01, c03, c05, c06
from .common import (ModelGap, Obs, Violation, World, base_result, blueprint_probes,
                     compile_case, merge_fired, net_signature, probe, skeleton)
from .twin import Twin, compare_obs, declared_names, has_known_structure, observe, rename

PROP = "C12"
FAMILIES = {"c01": c01, "c03": c03, "c05": c05, "c06": c06}
SHIFT = 37


def _shift_places(stmts, dx: int):
    out = copy.deepcopy(stmts)
    for s in out:
        if s[0] == "place" and s[3][0] == "lit":
            s[3][1] += dx
        elif s[0] == "for":
            s[3] = _shift_places(s[3], dx)
    return out


def _far_program(ch: Chooser):
    """One input driving 2-4 lamps placed far apart: long wires, relay poles, no shared-source
    pairs of combinators.  Both P and Q draw their signal from the same small pool on purpose."""
    t = ch.pick(["signal-A", "signal-A", "signal-B", "iron-plate"])
    v = ch.i32_biased(-20, 20)
    stmts = [["decl", "Signal", "a", ["siglit", t, ["lit", v, 10]]]]
    thr = set()
    used = set()
    for k in range(ch.rint(2, 4)):
        for _t in range(20):
            x, y = ch.rint(-12, 34), ch.rint(-30, 30)
            if (x, y) not in used:
                break
        used.add((x, y))
        c = ch.i32_biased(-20, 20)
        thr.add(c)
        stmts.append(["place", f"l{k}", "small-lamp", ["lit", x, 10], ["lit", y, 10], None])
        stmts.append(["enable", f"l{k}", ["bin", ch.pick(lang.CMP_OPS), ["var", "a"], ["lit", c, 10]]])
    inputs = [{"name": "a", "type": t, "init": v, "dom": "small"}]
    return {"stmts": stmts, "inputs": inputs, "history": gen.gen_history(ch, inputs, thr, ch.rint(1, 4)),
            "containers": []}


def _sub(ch: Chooser, tier: str, which: str):
    fam = ch.weighted([(4, "c01"), (2, "c03"), (2, "c05"), (3, "c06"), (4, "far")])
    if fam == "far":
        case = _far_program(ch)
    else:
        for _ in range(10):
            case = FAMILIES[fam].gen_case(ch, tier)
            if fam == "c06" and case.get("family") == "loader":
                continue
            break
    case["family"] = fam
    if which == "Q":
        _as_q(case, fam)
    return case


def _as_q(case: dict, fam: str) -> dict:
    if True:
        names = declared_names(case["stmts"])
        mp = {n: "q_" + n for n in names}
        dx = 3 if fam == "far" else SHIFT
        case["stmts"] = _shift_places(rename(case["stmts"], mp), dx)
        for i in case["inputs"]:
            i["name"] = mp.get(i["name"], i["name"])
        case["history"] = [{(("__emit__" + mp.get(k[8:], k[8:])) if k.startswith("__emit__") else mp.get(k, k)): v
                            for k, v in st.items()} for st in case.get("history") or []]
        for c in case.get("containers") or []:
            c["name"] = mp.get(c["name"], c["name"])
            c["x"] += dx
        for c in case.get("cells") or []:
            c["mem"], c["reader"] = mp.get(c["mem"], c["mem"]), mp.get(c["reader"], c["reader"])
    return case


def gen_case(ch: Chooser, tier: str = "quick") -> dict:
    P = _sub(ch, tier, "P")
    if ch.chance(1, 4):
        # the same module instantiated twice: Q is P under other names (same signal types, same
        # constants, same expressions), driven through a different history
        Q = _as_q(copy.deepcopy(P), P["family"])
        for st in Q.get("history") or []:
            for k in list(st):
                if isinstance(st[k], int) and not k.startswith("__"):
                    st[k] = st[k] + ch.pick([1, -1, 3, 7, -10])
        if not Q.get("history"):
            Q["history"] = [{i["name"]: i["init"] + ch.pick([1, -1, 5]) for i in Q["inputs"]}]
    else:
        Q = _sub(ch, tier, "Q")
    order = [0] * len(P["stmts"]) + [1] * len(Q["stmts"])
    # seeded interleaving preserving each program's order (Fisher-Yates on the tag sequence)
    for i in range(len(order) - 1, 0, -1):
        j = ch.draw(i + 1)
        order[i], order[j] = order[j], order[i]
    return {"prop": PROP, "P": {k: P[k] for k in ("stmts", "inputs", "history", "family") if k in P}
            | {"containers": P.get("containers", [])},
            "Q": {k: Q[k] for k in ("stmts", "inputs", "history", "family") if k in Q}
            | {"containers": Q.get("containers", [])},
            "order": order, "options": gen.gen_options(ch, allow_poles=False),
            "plan": gen.gen_plan(ch),
            "plan_p": {"solver": {"mode": "det", "seed": ch.draw(1 << 16), "budget": 0.05}},
            "plan_q": {"solver": {"mode": "det", "seed": ch.draw(1 << 16), "budget": 0.05}}}


def combined(case) -> list:
    ps, qs = list(case["P"]["stmts"]), list(case["Q"]["stmts"])
    out = []
    ip = iq = 0
    for tag in case["order"]:
        if tag == 0 and ip < len(ps):
            out.append(ps[ip]); ip += 1
        elif tag == 1 and iq < len(qs):
            out.append(qs[iq]); iq += 1
    out += ps[ip:] + qs[iq:]
    return out


def _inits(sub) -> dict:
    return {i["name"]: i["init"] for i in sub["inputs"]} | {
        s[2]: s[3][2][1] for s in sub["stmts"]
        if s[0] == "decl" and s[3][0] == "siglit" and s[3][2][0] == "lit"
        and any(i["name"] == s[2] for i in sub["inputs"])}


def _keys_of(sub, obs_dict) -> set:
    names = set(declared_names(sub["stmts"]))
    pos = set()
    for s in sub["stmts"]:
        if s[0] == "place" and s[3][0] == "lit" and s[4][0] == "lit":
            tw, th = gamedata.tile_size(s[2])
            pos.add((s[2], s[3][1] + tw / 2.0, s[4][1] + th / 2.0))
    keys = set()
    for k in obs_dict:
        if k[0] == "anchor" and k[1] in names:
            keys.add(k)
        elif k[0] == "cond" and (k[1], k[2], k[3]) in pos:
            keys.add(k)
    return keys


def _containers(sub, w):
    out = {}
    for c in sub.get("containers") or []:
        e = c06._entity_at(w, c["proto"], (c["x"], c["y"]))
        if e is not None:
            out[c["name"]] = e
    return out


def run_case(case: dict) -> dict:
    res = base_result(case)
    P, Q = case["P"], case["Q"]
    src_c = lang.pprogram(combined(case))
    src_p, src_q = lang.pprogram(P["stmts"]), lang.pprogram(Q["stmts"])
    res["sources"] = {"combined": src_c, "P": src_p, "Q": src_q}
    comps = []
    for src, plan in ((src_c, case["plan"]), (src_p, case["plan_p"]), (src_q, case["plan_q"])):
        c = compile_case(src, case["options"], plan)
        merge_fired(res, c)
        comps.append(c)
    res["events"] = [c["events"] for c in comps]
    if not all(c["ok"] for c in comps):
        bad = next(c for c in comps if not c["ok"])
        res["status"] = "refused"
        res["refusal"] = {"stage": bad["stage"], "error": bad["error"], "crash": bad["crash"]}
        if comps[1]["ok"] and comps[2]["ok"] and not comps[0]["ok"] and bad["stage"] in ("semantic", "lowering", "parse"):
            res["status"] = "violation"
            res["violation"] = {"class": "combination-refused", "detail": {"error": bad["error"]}}
        return res
    try:
        wc, wp, wq = (World(c["bp"]) for c in comps)
        blueprint_probes(res, wc)
        excl = set(case.get("exclude") or [])
        tw = Twin([wc, wp, wq])
        memory = P["family"] in ("c03", "c05") or Q["family"] in ("c03", "c05")
        if "crosstalk" in excl:
            # only crosstalk INSIDE one program is the known finding; a site in the combined build
            # whose emitters come from both programs is exactly what this property forbids
            if (has_known_structure(wp, tw.obs[1], memory, P["stmts"], P["inputs"])
                    or has_known_structure(wq, tw.obs[2], memory, Q["stmts"], Q["inputs"])):
                res["status"] = "excluded"
                res["excluded_by"] = "crosstalk"
                return res
            # the bundle form of the same structure (a wire-merged bundle sharing its network with
            # a foreign emitter), judged on each program's OWN build only
            for sub, w_, o_ in ((P, wp, tw.obs[1]), (Q, wq, tw.obs[2])):
                if sub["family"] == "c06" and c06.known_crosstalk(
                        w_, o_, sub["stmts"], list(_containers(sub, w_).values()), anchors=True) and \
                        __import__("factosim.static_trigger", fromlist=["x"]).crosstalk_possible(
                            sub["stmts"], sub["inputs"]):
                    res["status"] = "excluded"
                    res["excluded_by"] = "crosstalk"
                    return res
            from ..diagnose import crosstalk_sites

            from ..static_trigger import crosstalk_possible

            can = {"P": crosstalk_possible(P["stmts"], P["inputs"]),
                   "Q": crosstalk_possible(Q["stmts"], Q["inputs"])}
            labels = {n: k for k, v in tw.obs[0].inputs.items() for n in v}
            intra = False
            for (_reader, _sig, who) in crosstalk_sites(wc, [], labels, memory_ok=memory):
                owners = set()
                for n in who:
                    d = wc.ents[n].desc or ""
                    owners.add("Q" if (" q_" in d or "computing q_" in d or d.startswith("q_") or "mem:mem_q_" in d) else "P")
                if len(owners) == 1 and can[next(iter(owners))]:
                    intra = True
                elif len(owners) == 1:
                    probe(res, "crosstalk_structure_without_static_trigger")
                else:
                    probe(res, "cross_program_site_kept")
            if intra:
                res["status"] = "excluded"
                res["excluded_by"] = "crosstalk"
                return res
        if "same-source-two-roles" in excl:
            from .c02 import same_source_two_roles

            if same_source_two_roles(combined(case)):
                res["status"] = "excluded"
                res["excluded_by"] = "same-source-two-roles"
                return res
        probe(res, f"pair_{P['family']}_{Q['family']}")
        vp, vq = _inits(P), _inits(Q)
        cont = [(_containers(P, wc) | _containers(Q, wc)), _containers(P, wp), _containers(Q, wq)]

        def apply(step, vals, worlds):
            for k, v in step.items():
                if k.startswith("__emit__"):
                    nm = k[8:]
                    for wi in worlds:
                        if nm in cont[wi]:
                            tw.ws[wi].set_emit(cont[wi][nm].num, {gamedata.sk(t): x for t, x in v.items()})
                elif not k.startswith("__"):
                    vals[k] = v

        def settle(where):
            ts = tw.settle_all(extra=8)
            res["ticks"] += sum(t or 0 for t in ts)
            return ts

        def check(si, phase):
            oc = observe(wc, tw.obs[0])
            op_, oq = observe(wp, tw.obs[1]), observe(wq, tw.obs[2])
            where = {"phase": phase, "step": si, "P_inputs": dict(vp), "Q_inputs": dict(vq)}
            compare_obs(oc, op_, res, where, "P-differs-inside-combination", _keys_of(P, oc))
            compare_obs(oc, oq, res, where, "Q-differs-inside-combination", _keys_of(Q, oc))

        for phase, sub, vals in (("drive-P", P, vp), ("drive-Q", Q, vq)):
            for si, step in enumerate([{}] + list(sub.get("history") or [])):
                if "__revisit__" in step:
                    continue
                apply(step, vals, (0, 1) if sub is P else (0, 2))
                tw.set_inputs(vp | vq)
                ts = settle(None)
                if ts[0] is None or ts[1] is None or ts[2] is None:
                    if (ts[0] is None) and not (ts[1] is None or ts[2] is None):
                        raise Violation("combination-does-not-settle", {"phase": phase, "step": si})
                    probe(res, "a_build_does_not_settle")
                    res["sig"] = [skeleton(combined(case)), "nosettle"]
                    return res
                check(si, phase)
        res["sig"] = [skeleton(combined(case)), net_signature(wc), sorted(res["fired"])]
        if res["compared"] == 0:
            res["status"] = "trivial"
    except Violation as v:
        res["status"] = "violation"
        res["violation"] = {"class": v.cls, "detail": v.detail}
    except ModelGap as g:
        res["status"] = "gap"
        res["gap"] = str(g)
    except lang.RefError as r:
        res["status"] = "invalid"
        res["invalid"] = str(r)
    return res


TIERS = {
    "quick": {"runs": 350, "budget_s": 60, "hashseeds": 4, "shrink_budget": 48, "struct_budget": 0,
              "max_reports": 4},
    "thorough": {"runs": 12000, "budget_s": 1200, "hashseeds": 8, "shrink_budget": 300,
                 "struct_budget": 0, "max_reports": 8},
}
RULE = ("seeded pairs (P, Q) from the scalar, gated-cell, latch and entity families with disjoint names, "
        "overlapping signal types and shifted user entities; a seeded order-preserving interleaving is "
        "compiled together, P and Q alone, each under its own fault plan; P's history is driven while Q "
        "is held and vice versa, all three builds in lock step; P's (Q's) anchors and entity conditions "
        "in the combination must equal those of P (Q) alone at every settle point; distinct = (combined "
        "skeleton, circuit shape, fault kinds fired)")
EXPECTED_PROBES = ["pair_c01_c01", "pair_c01_c03", "pair_c03_c05", "relay_or_pole_present"]
