"""C03 - a gated memory cell latches the written value and holds it.

Workload: 1-3 cells `m.write(data, when=en)`; data = stateless expression of data inputs (or of
an earlier cell's read); en = hazard-free expression of inputs only (each input at most once,
settled value never negative).  Schedule: exactly one input changes per step, held until the
circuit settles.  Model: sample-and-hold cell, initial 0; race steps (the changed input reaches
both the enable and the data of a cell and the step turns that enable off) are relaxed: the
property does not say which value is "last written", so the observed value is adopted.
"""
from __future__ import annotations

from .. import gamedata, gen, lang
from ..diagnose import crosstalk_sites
from ..rng import Chooser
from .common import (ModelGap, Obs, Violation, World, base_result, blueprint_probes,
                     compile_case, fmt_sigs, input_inits, bind_input_aliases, merge_fired, net_signature, probe, settle_bound,
                     skeleton)

PROP = "C03"
CELL_TYPES = ["signal-M", "signal-N", "signal-P", "iron-plate", "signal-0", "water"]


def _gen_enable(ch: Chooser, g: gen.ScalarGen, pool: list[str]):
    """Hazard-free enable over inputs from `pool` (each used at most once). Returns (expr, used)."""
    c = g.c
    doms = {i["name"]: i["dom"] for i in c.inputs}

    def take():
        name = pool.pop(ch.draw(len(pool)))
        return name

    kind = ch.weighted([(3, "cmp"), (2, "bare"), (2, "chain"), (1, "arith_cmp")])
    if kind == "bare":
        cands = [n for n in pool if doms[n] in ("bool", "nonneg", "shift", "exp")]
        if cands:
            n = ch.pick(cands)
            pool.remove(n)
            return ["var", n], [n]
        kind = "cmp"
    if kind == "cmp" or len(pool) < 2:
        n = take()
        thr = ch.i32_biased(-20, 20)
        c.thresholds.add(thr)
        return ["bin", ch.pick(lang.CMP_OPS), ["var", n], ["lit", thr, 10]], [n]
    if kind == "chain":
        op = ch.pick(["&&", "||"])
        used = []
        e = None
        for _ in range(min(len(pool), ch.rint(2, 3))):
            n = take()
            used.append(n)
            thr = ch.i32_biased(-20, 20)
            c.thresholds.add(thr)
            cmp_ = ["bin", ch.pick(lang.CMP_OPS), ["var", n], ["lit", thr, 10]]
            e = cmp_ if e is None else ["bin", op, e, cmp_]
        return e, used
    n = take()
    thr = ch.i32_biased(-20, 20)
    c.thresholds.add(thr)
    k = ch.i32_biased(-10, 10)
    return ["bin", ch.pick(lang.CMP_OPS), ["bin", ch.pick(["+", "-", "*"]), ["var", n], ["lit", k, 10]],
            ["lit", thr, 10]], [n]


def gen_case(ch: Chooser, tier: str = "quick") -> dict:
    feat = gen.ScalarGen.swarm(ch)
    feat.update({"same_type_inputs": False, "untyped": False})
    for _attempt in range(30):
        g = gen.ScalarGen(ch, feat)
        c = g.c
        n_cells = ch.weighted([(5, 1), (3, 2), (1, 3)])
        n_data = ch.rint(1, 3)
        for _ in range(n_data):
            g.add_input(ch.weighted([(3, "small"), (2, "any"), (1, "nonneg")]))
        n_en = ch.rint(1, 3)
        en_inputs = [g.add_input(ch.weighted([(3, "small"), (2, "bool"), (1, "nonneg")]))
                     for _ in range(n_en)]
        cells = []
        for ci in range(n_cells):
            mname = c.fresh("m")
            typed = ch.chance(3, 4)
            mtype = ch.pick(CELL_TYPES) if typed else None
            # data expression
            saved_sigs = list(c.sigs)
            # data may read inputs (all) and earlier cells' direct reads
            data = g.expr(ch.rint(0, 2)) if ch.chance(2, 3) else g.sig_leaf()
            c.sigs = saved_sigs
            if typed:
                data = ["proj", data, mtype]
            # enable: sometimes shares an input with the data (race coverage), mostly disjoint
            pool = list(en_inputs)
            if ch.chance(1, 5):
                pool += [i["name"] for i in c.inputs if i["name"] not in pool][:1]
            en, _used = _gen_enable(ch, g, pool)
            c.stmts.append(["mem", mname, mtype])
            if ch.chance(1, 6):
                # an arithmetic value (never negative) that serves as the enable and, on its own
                # type, as write data too ("remember the last positive reading")
                cands = [i for i in c.inputs if i["dom"] in ("nonneg", "bool", "shift", "exp")]
                src_in = ch.pick(cands)["name"] if cands else g.add_input("nonneg")
                xn = c.fresh("x")
                c.stmts.append(["decl", "Signal", xn, ["bin", ch.pick(["*", "+"]), ["var", src_in],
                                                       ["lit", ch.rint(1, 5), 10]]])
                xt = next(i["type"] for i in c.inputs if i["name"] == src_in)
                en_ref = ["var", xn]
                use = ch.weighted([(2, "same"), (2, "other"), (1, "enable-only")])
                if use == "same":
                    # this very cell stores x while x > 0
                    c.stmts[-2] = ["mem", mname, xt]
                    mtype = xt
                    typed = True
                    data = ["var", xn]
                elif use == "other":
                    on = c.fresh("m")
                    c.stmts.append(["mem", on, xt])
                    e2, _u = _gen_enable(ch, g, list(en_inputs))
                    c.stmts.append(["write", on, ["var", xn], e2])
                    orn = c.fresh("r")
                    c.stmts.append(["decl", "Signal", orn, ["read", on]])
                    cells.append({"mem": on, "type": xt, "reader": orn})
            elif ch.chance(1, 4):
                en_name = c.fresh("en")
                c.stmts.append(["decl", "Signal", en_name, en])
                en_ref = ["var", en_name]
                if ch.chance(1, 2):
                    # the named enable is also read elsewhere
                    q = c.fresh("q")
                    c.stmts.append(["decl", "Signal", q, ["bin", "+", ["var", en_name], ["lit", 1, 10]]])
            else:
                en_ref = en
            c.stmts.append(["write", mname, data, en_ref])
            rname = c.fresh("r")
            c.stmts.append(["decl", "Signal", rname, ["read", mname]])   # exported, never consumed
            cells.append({"mem": mname, "type": mtype, "reader": rname})
            if ch.chance(1, 2):
                vname = c.fresh("v")       # consumed alias: later cells / readers use the value
                c.stmts.append(["decl", "Signal", vname, ["read", mname]])
                c.sigs.append(vname)
                if typed:
                    c.typed.append(vname)
            # extra readers
            for _ in range(ch.rint(0, 2)):
                k = ch.i32_biased(-50, 50)
                q = c.fresh("q")
                op = ch.pick(["+", "*", "-"])
                c.stmts.append(["decl", "Signal", q, ["bin", op, ["read", mname], ["lit", k, 10]]])
            if ch.chance(1, 4):
                ln = c.fresh("lamp")
                thr = ch.i32_biased(-20, 20)
                c.thresholds.add(thr)
                c.stmts.append(["place", ln, "small-lamp", ["lit", len(cells) * 2, 10], ["lit", -3, 10], None])
                c.stmts.append(["enable", ln, ["bin", ch.pick(lang.CMP_OPS), ["read", mname], ["lit", thr, 10]]])
        stmts = c.stmts
        inputs = c.inputs
        try:
            lang.Interp(stmts).run({i["name"]: i["init"] for i in inputs}, {})
        except lang.RefError:
            continue
        break
    else:
        raise RuntimeError("generator could not produce a valid C03 program")
    n_steps = ch.rint(3, 12)
    hist = gen.gen_history(ch, inputs, c.thresholds, n_steps, one_at_a_time=True)
    return {
        "prop": PROP, "stmts": stmts, "inputs": inputs, "cells": cells, "history": hist,
        "options": gen.gen_options(ch), "plan": gen.gen_plan(ch),
    }


# --------------------------------------------------------------------------------- model
def _support(stmts):
    """name -> set of inputs/cells the declared name or cell data depends on (transitively)."""
    deps: dict[str, set] = {}

    def of(e) -> set:
        out: set = set()
        for n in gen.referenced_names([["decl", "Signal", "_", e]]):
            out |= deps.get(n, {n})
        return out

    cell_data: dict[str, set] = {}
    cell_en: dict[str, set] = {}
    for s in stmts:
        if s[0] == "decl":
            if s[3][0] == "siglit" and not gen.referenced_names([s]):
                deps[s[2]] = {s[2]}
            else:
                deps[s[2]] = of(s[3])
        elif s[0] == "mem":
            deps[s[1]] = set()
        elif s[0] == "write":
            cell_data[s[1]] = of(s[2])
            cell_en[s[1]] = of(s[3]) if s[3] is not None else set()
            deps[s[1]] = cell_data[s[1]] | cell_en[s[1]] | {s[1]}
    return deps, cell_data, cell_en


def _direct_enable(stmts, mem: str) -> bool:
    """True if the cell's enable is a bare input or (a chain of) input-vs-literal comparisons:
    such an enable has no intermediate combinator and cannot pulse at power-up."""
    decl = {s[2]: s[3] for s in stmts if s[0] == "decl"}

    def direct(e, depth=0) -> bool:
        if e[0] == "var":
            d = decl.get(e[1])
            if d is None:
                return False
            if d[0] == "siglit":
                return True
            return depth == 0 and direct(d, 1)
        if e[0] == "bin" and e[1] in lang.CMP_OPS:
            return e[2][0] == "var" and decl.get(e[2][1], [None])[0] == "siglit" and e[3][0] == "lit"
        if e[0] == "bin" and e[1] in ("&&", "||"):
            return direct(e[2], depth) and direct(e[3], depth)
        return False

    for s in stmts:
        if s[0] == "write" and s[1] == mem:
            return s[3] is None or direct(s[3])
    return True


def run_case(case: dict) -> dict:
    res = base_result(case)
    stmts = case["stmts"]
    src = lang.pprogram(stmts)
    res["source"] = src
    comp = compile_case(src, case["options"], case["plan"])
    merge_fired(res, comp)
    res["events"] = comp["events"]
    if not comp["ok"]:
        res["status"] = "refused"
        res["refusal"] = {"stage": comp["stage"], "error": comp["error"], "crash": comp["crash"]}
        return res
    try:
        w = World(comp["bp"])
        blueprint_probes(res, w)
        obs = Obs(w)
        if "same-source-two-roles" in (case.get("exclude") or []):
            from .c02 import same_source_two_roles

            if same_source_two_roles(stmts):
                res["status"] = "excluded"
                res["excluded_by"] = "same-source-two-roles"
                return res
        if "crosstalk" in (case.get("exclude") or []):
            labels = {n: k for k, v in obs.inputs.items() for n in v}
            from ..static_trigger import crosstalk_possible

            sites = crosstalk_sites(w, [], labels, memory_ok=True)
            if sites and not crosstalk_possible(stmts, case["inputs"]):
                probe(res, "crosstalk_structure_without_static_trigger")
                sites = []
            if sites:
                res["status"] = "excluded"
                res["excluded_by"] = "crosstalk"
                return res
        interp = lang.Interp(stmts)
        cells = case["cells"]
        _deps, cell_data, _cell_en = _support(stmts)
        vals = input_inits(case)
        missing = bind_input_aliases(obs, case)
        if missing:
            probe(res, "input_without_combinator", len(missing))
        bound = settle_bound(w) + 2 * len(cells)
        state = {c["mem"]: 0 for c in cells}
        en_prev = {c["mem"]: False for c in cells}
        decls = [s for s in stmts if s[0] == "decl" and s[1] == "Signal"]
        refs = gen.referenced_names(stmts)
        lamps = [s for s in stmts if s[0] == "enable"]
        lamp_pos = {s[1]: (s[3][1], s[4][1]) for s in stmts if s[0] == "place"}
        steps = [{}] + list(case["history"])
        for si, step in enumerate(steps):
            changed = None
            for k, v in step.items():
                if k not in missing:
                    vals[k] = v
                    changed = k
            for k, v in vals.items():
                if k not in missing:
                    obs.set_input(k, v)
            t = w.settle(bound)
            if t is None:
                raise Violation("no-settle", {"bound": bound, "step": si, "inputs": dict(vals)})
            res["ticks"] += t + 1
            # the read value must stay constant once settled: run a few more ticks
            snap = w.snapshot()
            w.run(3)
            res["ticks"] += 3
            if w.snapshot() != snap:
                raise Violation("unstable-after-settle", {"step": si})
            # ---- reference step: cells in declaration order (data may read earlier cells)
            where = {"step": si, "inputs": dict(vals), "changed": changed}
            for ci, c in enumerate(cells):
                for _it in range(len(cells) + 2):
                    interp.run(vals, dict(state))
                    wr = [x for x in interp.writes if x[0] == c["mem"]][0]
                    break
                data_v, en_v = wr[1], wr[2]
                en_now = lang.ival(en_v) > 0
                if lang.ival(en_v) < 0:
                    raise lang.RefError("negative enable (outside the property)")
                expected = lang.ival(data_v) if en_now else state[c["mem"]]
                got = obs.read_anchor(c["reader"])
                if got is None:
                    raise Violation("cell-reader-missing", {"cell": c["mem"], "where": where})
                sigs, label_type, _n = got
                ctype = c["type"] or (data_v.type if isinstance(data_v, lang.Sig) else None) or label_type
                if ctype is None:
                    raise Violation("cell-type-unknown", {"cell": c["mem"]})
                if c["type"] and label_type and label_type != c["type"]:
                    raise Violation("cell-wrong-type", {"cell": c["mem"], "declared": c["type"],
                                                        "label": label_type, "where": where})
                v = sigs.get(gamedata.sk(ctype), 0)
                race = (changed is not None and en_prev[c["mem"]] and not en_now
                        and changed in cell_data.get(c["mem"], set()))
                if si == 0 and not en_now and not _direct_enable(stmts, c["mem"]):
                    # power-up: every combinator output starts at 0, so an enable computed
                    # through an intermediate combinator can pulse before it settles; the
                    # property speaks about settled enables only.
                    race = True
                    probe(res, "powerup_transient_relaxed")
                res["compared"] += 1
                if race:
                    probe(res, "race_step_relaxed")
                    state[c["mem"]] = v
                else:
                    if v != expected:
                        raise Violation("cell-wrong-value", {
                            "cell": c["mem"], "type": ctype, "expected": expected, "got": v,
                            "enable": lang.ival(en_v), "network": fmt_sigs(sigs), "where": where})
                    state[c["mem"]] = expected
                if len(sigs) > (1 if v else 0):
                    probe(res, "foreign_signal_on_cell_network")
                en_prev[c["mem"]] = en_now
                if en_now:
                    probe(res, "write_enabled_step")
                else:
                    probe(res, "hold_step")
            # ---- all other exported readers against the model state
            env = interp.run(vals, dict(state))
            for s in decls:
                name = s[2]
                if refs.get(name) or any(c["reader"] == name for c in cells):
                    continue
                exp = env.get(name)
                got = obs.read_anchor(name)
                if got is None or not isinstance(exp, lang.Sig):
                    continue
                sigs, label_type, _n = got
                t_ = exp.type or label_type
                if t_ is None:
                    continue
                v = sigs.get(gamedata.sk(t_), 0)
                res["compared"] += 1
                if v != exp.v:
                    raise Violation("reader-wrong-value", {
                        "name": name, "type": t_, "expected": exp.v, "got": v,
                        "network": fmt_sigs(sigs), "where": where})
            for (uid, val), s in zip(interp.enables, lamps):
                pos = lamp_pos.get(s[1])
                ent = _entity_at(w, "small-lamp", pos)
                if ent is None:
                    continue
                truth = w.condition_of(ent.num)
                if truth is None:
                    continue
                res["compared"] += 1
                if truth != (lang.ival(val) > 0):
                    raise Violation("lamp-reader-wrong", {"lamp": s[1], "expected": lang.ival(val) > 0,
                                                          "got": truth, "where": where})
        res["sig"] = [skeleton(stmts), net_signature(w), sorted(res["fired"]), len(steps)]
        if res["compared"] == 0:
            res["status"] = "trivial"
    except Violation as v:
        res["status"] = "violation"
        res["violation"] = {"class": v.cls, "detail": v.detail}
    except ModelGap as g:
        res["status"] = "gap"
        res["gap"] = str(g)
    except lang.RefError as r:
        res["status"] = "invalid"
        res["invalid"] = str(r)
    return res


def _entity_at(w: World, proto: str, tile):
    if tile is None:
        return None
    tw, th = gamedata.tile_size(proto)
    cx, cy = tile[0] + tw / 2.0, tile[1] + th / 2.0
    for e in w.ents.values():
        if e.name == proto and abs(e.x - cx) < 1e-6 and abs(e.y - cy) < 1e-6:
            return e
    return None


TIERS = {
    "quick": {"runs": 600, "budget_s": 55, "hashseeds": 4, "shrink_budget": 64, "struct_budget": 160,
              "max_reports": 4},
    "thorough": {"runs": 20000, "budget_s": 900, "hashseeds": 8, "shrink_budget": 400,
                 "struct_budget": 600, "max_reports": 8},
}
RULE = ("seeded programs with 1-3 write-gated cells (data: stateless expression of inputs / earlier "
        "cells, enable: hazard-free expression of inputs) and several readers x compile fault plan x "
        "history of 3-12 steps changing exactly one input, each held past the settle bound; "
        "non-trivial = compiled and >=1 cell value compared; distinct = (program skeleton, circuit "
        "shape, fault kinds fired, history length)")
EXPECTED_PROBES = ["write_enabled_step", "hold_step", "race_step_relaxed", "relay_or_pole_present"]
