"""Pieces shared by the per-property modules."""
from __future__ import annotations

import json

from .. import lang, seam
from ..observe import Obs
from ..world import ModelGap, World, names


class Violation(Exception):
    def __init__(self, cls: str, detail):
        super().__init__(cls)
        self.cls = cls
        self.detail = detail


def skeleton(stmts) -> str:
    """Program shape with literal values erased (for the distinctness measure)."""

    def sk(e):
        if isinstance(e, list):
            if e and e[0] == "lit":
                return ["lit"]
            return [sk(x) for x in e]
        if isinstance(e, dict):
            return {k: sk(v) for k, v in e.items()}
        if isinstance(e, int) and not isinstance(e, bool):
            return 0
        return e

    return seam.digest(sk(stmts))


def compile_case(src: str, options: dict, plan: dict | None, **kw) -> dict:
    return seam.compile_source(
        src,
        optimize=options.get("optimize", True),
        poles=options.get("poles"),
        retries=options.get("retries", 3),
        plan=plan,
        **kw,
    )


def settle_bound(w: World) -> int:
    return len(w.combs) + 3


def net_signature(w: World) -> str:
    kinds = sorted((e.kind, len(e.net)) for e in w.ents.values() if e.kind != "pole")
    return seam.digest([kinds, w.n_nets])


def base_result(case: dict) -> dict:
    return {
        "status": "ok",
        "violation": None,
        "fired": {},
        "probes": {},
        "ticks": 0,
        "compiles": 0,
        "compared": 0,
        "sig": None,
    }


def merge_fired(res: dict, comp: dict) -> None:
    for k, v in (comp.get("fired") or {}).items():
        res["fired"][k] = res["fired"].get(k, 0) + v
    res["compiles"] += 1


def probe(res: dict, name: str, n: int = 1) -> None:
    res["probes"][name] = res["probes"].get(name, 0) + n


def blueprint_probes(res: dict, w: World) -> None:
    poles = sum(1 for e in w.ents.values() if e.kind == "pole")
    if poles:
        probe(res, "relay_or_pole_present")
    for e in w.ents.values():
        if e.kind == "decider":
            conds = (e.cb.get("decider_conditions") or {}).get("conditions") or []
            if len(conds) > 1:
                probe(res, "multi_condition_decider")
                break
    for e in w.ents.values():
        if e.kind in ("arith", "decider"):
            s = json.dumps(e.cb)
            if '"red": false' in s or '"green": false' in s:
                probe(res, "network_selection_used")
                break


def input_inits(case: dict) -> dict:
    """Declared value of every input, read from the program text itself (source of truth)."""
    out = {}
    decl = {s[2]: s[3] for s in case["stmts"] if s[0] == "decl"}
    for i in case["inputs"]:
        d = decl.get(i["name"])
        if d and d[0] == "siglit" and d[2][0] == "lit":
            out[i["name"]] = d[2][1]
        else:
            out[i["name"]] = i["init"]
    return out


def bind_input_aliases(obs, case: dict) -> list[str]:
    """The compiler labels an input's combinator with an alias when the program gives the value a
    second name (`Bundle b = {i2};`).  Find such inputs under their alias; returns the names of
    inputs that have no combinator at all."""
    missing = []
    for i in case["inputs"]:
        nm = i["name"]
        if nm in obs.inputs:
            continue
        found = False
        for s in case["stmts"]:
            if s[0] != "decl":
                continue
            e = s[3]
            if e == ["var", nm] or (e[0] == "blit" and e[1] == [["var", nm]]):
                if s[2] in obs.inputs:
                    obs.inputs[nm] = obs.inputs[s[2]]
                    found = True
                    break
        if not found:
            missing.append(nm)
    return missing


def fmt_sigs(d: dict) -> dict:
    return names(d)


__all__ = [
    "Violation", "skeleton", "compile_case", "settle_bound", "net_signature", "base_result",
    "merge_fired", "probe", "blueprint_probes", "fmt_sigs", "input_inits", "bind_input_aliases", "Obs", "World", "ModelGap", "lang",
]
