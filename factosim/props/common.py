"""Pieces shared by the per-property modules."""
from __future__ import annotations

import json

from .. import lang, seam
from ..observe import Obs
from ..world import ModelGap, World, names


class Violation(Exception):
    def __init__(self, cls: str, detail):
        super().__init__(cls)
        self.cls = cls
        self.detail = detail


def skeleton(stmts) -> str:
    """Program shape with literal values erased (for the distinctness measure)."""

    def sk(e):
        if isinstance(e, list):
            if e and e[0] == "lit":
                return ["lit"]
            return [sk(x) for x in e]
        if isinstance(e, dict):
            return {k: sk(v) for k, v in e.items()}
        if isinstance(e, int) and not isinstance(e, bool):
            return 0
        return e

    return seam.digest(sk(stmts))


def compile_case(src: str, options: dict, plan: dict | None, **kw) -> dict:
    return seam.compile_source(
        src,
        optimize=options.get("optimize", True),
        poles=options.get("poles"),
        retries=options.get("retries", 3),
        plan=plan,
        **kw,
    )


def settle_bound(w: World) -> int:
    return len(w.combs) + 3


def net_signature(w: World) -> str:
    kinds = sorted((e.kind, len(e.net)) for e in w.ents.values() if e.kind != "pole")
    return seam.digest([kinds, w.n_nets])


def base_result(case: dict) -> dict:
    return {
        "status": "ok",
        "violation": None,
        "fired": {},
        "probes": {},
        "ticks": 0,
        "compiles": 0,
        "compared": 0,
        "sig": None,
    }


def merge_fired(res: dict, comp: dict) -> None:
    for k, v in (comp.get("fired") or {}).items():
        res["fired"][k] = res["fired"].get(k, 0) + v
    res["compiles"] += 1


def probe(res: dict, name: str, n: int = 1) -> None:
    res["probes"][name] = res["probes"].get(name, 0) + n


def blueprint_probes(res: dict, w: World) -> None:
    poles = sum(1 for e in w.ents.values() if e.kind == "pole")
    if poles:
        probe(res, "relay_or_pole_present")
    for e in w.ents.values():
        if e.kind == "decider":
            conds = (e.cb.get("decider_conditions") or {}).get("conditions") or []
            if len(conds) > 1:
                probe(res, "multi_condition_decider")
                break
    for e in w.ents.values():
        if e.kind in ("arith", "decider"):
            s = json.dumps(e.cb)
            if '"red": false' in s or '"green": false' in s:
                probe(res, "network_selection_used")
                break


def fmt_sigs(d: dict) -> dict:
    return names(d)


__all__ = [
    "Violation", "skeleton", "compile_case", "settle_bound", "net_signature", "base_result",
    "merge_fired", "probe", "blueprint_probes", "fmt_sigs", "Obs", "World", "ModelGap", "lang",
]
