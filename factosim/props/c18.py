"""C18 - requested power poles power everything and form one grid; poles change neither the
circuit's behaviour nor any user-placed entity; without the option no pole but relays.

Twin: the same program compiled with and without the pole option (each under its own fault
plan); user entities compared with the C09 oracle, behaviour compared by driving both builds
with the same input history and comparing every exported anchor and entity condition."""
from __future__ import annotations

from .. import gamedata, lang
from ..rng import Chooser
from . import geom
from .common import (ModelGap, Obs, Violation, World, base_result, blueprint_probes,
                     compile_case, merge_fired, net_signature, probe, settle_bound, skeleton)
from .. import gen

PROP = "C18"
RUN_TIMEOUT_S = {"quick": 300, "thorough": 1200}   # thorough compiles programs of several hundred entities


def gen_case(ch: Chooser, tier: str = "quick") -> dict:
    case = geom.family_case(ch, tier, PROP, poles="always")
    case["plan_nopoles"] = gen.gen_plan(ch)
    hist = gen.gen_history(ch, case["inputs"], (), ch.rint(1, 4)) if case["inputs"] else []
    case["history"] = hist if case.get("family") in (None, "c01") else case.get("history", [])
    return case


def _observe(w: World, obs: Obs) -> dict:
    out = {}
    for name, lst in obs.anchors.items():
        out[("anchor", name)] = tuple(sorted(w.read(lst[0][0]).items()))
    for e in geom.user_entities(w):
        c = w.condition_of(e.num)
        if c is not None:
            out[("cond", e.name, e.x, e.y)] = c
    return out


def run_case(case: dict) -> dict:
    res = base_result(case)
    stmts = case["stmts"]
    src = lang.pprogram(stmts)
    res["source"] = src
    comp = compile_case(src, case["options"], case["plan"])
    merge_fired(res, comp)
    res["events"] = comp["events"]
    if not comp["ok"]:
        res["status"] = "refused"
        res["refusal"] = {"stage": comp["stage"], "error": comp["error"], "crash": comp["crash"]}
        return res
    try:
        w = World(comp["bp"])
        blueprint_probes(res, w)
        pole = case["options"]["poles"]
        probe(res, f"poles_{pole}")
        excl = set(case.get("exclude") or [])
        user_poles = frozenset()
        try:
            it0 = lang.Interp(stmts)
            it0.run({i["name"]: i["init"] for i in case["inputs"]}, {})
            user_poles = frozenset((p.proto, p.x, p.y) for p in it0.places
                                   if gamedata.kind_of(p.proto) == "pole")
        except lang.RefError:
            pass
        geom.check_power(w, pole, res, excl, user_poles)
        # ---- twin without poles
        opts = dict(case["options"])
        opts["poles"] = None
        comp2 = compile_case(src, opts, case.get("plan_nopoles"))
        merge_fired(res, comp2)
        if comp2["ok"]:
            w2 = World(comp2["bp"])
            geom.check_power(w2, None, res, frozenset(), user_poles)
            it = lang.Interp(stmts)
            try:
                it.run({i["name"]: i["init"] for i in case["inputs"]}, {})
                geom.check_user_entities(w, it.places, res)
            except lang.RefError:
                pass
            # behaviour: same input history on both builds (stateless families only)
            o1, o2 = Obs(w), Obs(w2)
            skip_beh = False
            if "crosstalk" in excl:
                from ..diagnose import crosstalk_sites

                if crosstalk_sites(w, [], {}) or crosstalk_sites(w2, [], {}):
                    skip_beh = True
                    probe(res, "behaviour_twin_skipped_crosstalk")
            if case.get("family") in (None, "c01") and not skip_beh:
                vals = {i["name"]: i["init"] for i in case["inputs"]}
                b1, b2 = settle_bound(w), settle_bound(w2)
                for si, step in enumerate([{}] + list(case.get("history") or [])):
                    vals.update({k: v for k, v in step.items() if not k.startswith("__")})
                    for k, v in vals.items():
                        o1.set_input(k, v)
                        o2.set_input(k, v)
                    t1, t2 = w.settle(b1), w2.settle(b2)
                    res["ticks"] += (t1 or b1) + (t2 or b2)
                    if (t1 is None) != (t2 is None):
                        raise Violation("poles-change-behaviour", {"what": "settling", "step": si,
                                                                   "with_poles": t1, "without": t2})
                    if t1 is None:
                        break
                    a, b = _observe(w, o1), _observe(w2, o2)
                    res["compared"] += len(a)
                    if a != b:
                        diff = [str(k) for k in set(a) | set(b) if a.get(k) != b.get(k)][:5]
                        raise Violation("poles-change-behaviour", {"step": si, "inputs": dict(vals),
                                                                   "differs_at": diff})
                probe(res, "behaviour_twin_compared")
        else:
            probe(res, "twin_refused")
        res["sig"] = [skeleton(stmts), net_signature(w), sorted(res["fired"]), pole]
    except Violation as v:
        res["status"] = "violation"
        res["violation"] = {"class": v.cls, "detail": v.detail}
        res["vtag"] = case["options"].get("poles")
    except ModelGap as g:
        res["status"] = "gap"
        res["gap"] = str(g)
    except lang.RefError as r:
        res["status"] = "invalid"
        res["invalid"] = str(r)
    return res


TIERS = {
    "quick": {"runs": 400, "budget_s": 55, "hashseeds": 4, "shrink_budget": 48, "struct_budget": 120,
              "max_reports": 4},
    "thorough": {"runs": 12000, "budget_s": 1200, "hashseeds": 8, "shrink_budget": 300,
                 "struct_budget": 500, "max_reports": 8},
}
RULE = ("seeded programs (placement programs incl. far / negative user entities; scalar, memory and latch "
        "families) x T in {small, medium, big, substation} x compile fault plan, twin build without "
        "poles under its own plan; oracle from game data: every electric consumer intersects the supply "
        "square of a pole of type T, copper wires within reach, one electric network, same user "
        "entities, same settled behaviour on a shared input history; distinct = (program skeleton, "
        "circuit shape, fault kinds fired, pole type)")
EXPECTED_PROBES = ["poles_small", "poles_medium", "poles_big", "poles_substation",
                   "behaviour_twin_compared", "power_checked"]
