"""C07 - the printed blueprint string carries the whole circuit.

Real processes: `python -m dsl_compiler.cli`, `python -m dsl_compiler`, `python compile.py` run
as subprocesses over a sampled invocation matrix {file, -i} x {string, --json} x {stdout, -o,
-o into a not-yet-existing directory} x {--no-optimize} x {--power-poles T} x {--name}; the
deterministic solver shim rides in through sitecustomize so every subprocess is repeatable.
Oracle per invocation: exit 0; the text decodes (base64 + zlib + JSON, or JSON); the string and
--json forms of one configuration are the same blueprint; versus the in-process layout plan of
the same source under the same shim, hash seed and options (captured by an observer around
BlueprintEmitter.emit_from_plan): every planned placement present at its position with its full
configuration and every planned wire present; and the decoded text equals the blueprint the API
returns (whose behaviour the other properties execute)."""
from __future__ import annotations

import base64
import json
import os
import shutil
import subprocess
import tempfile
import zlib

from .. import engine, gamedata, gen, lang, seam
from ..rng import Chooser
from .common import Violation, base_result, probe

PROP = "C07"
RUN_TIMEOUT_S = {"quick": 400, "thorough": 1200}   # 4-24 real CLI processes per run
SHIM_DIR = os.path.join(engine.VERIF, "factosim", "shim")
DET_PLAN = {"solver": {"mode": "det", "seed": 0, "budget": 0.05}}
_CMP = {"==": "=", "!=": "≠", ">=": "≥", "<=": "≤", "=": "=", ">": ">", "<": "<", "≠": "≠", "≥": "≥", "≤": "≤"}


def gen_case(ch: Chooser, tier: str = "quick") -> dict:
    from . import c01, c03, c04, c05, c06, geom

    fam = ch.weighted([(3, "c01"), (2, "c03"), (2, "c05"), (2, "geom"), (1, "c04"), (2, "c06"), (1, "c02"),
                       (5, "reuse"), (3, "example")])
    src = None
    if fam == "example":
        # one of the repository's own example programs (read from the current tree)
        import glob

        files = sorted(f for f in glob.glob(os.path.join(seam.REPO, "example_programs", "*.facto"))
                       if os.path.getsize(f) < 2500)
        if files:
            with open(ch.pick(files), encoding="utf-8") as fh:
                src = fh.read()
        else:
            fam = "reuse"
    if fam == "example":
        sub = None
    elif fam == "reuse":
        from . import c10

        for _ in range(20):
            stmts, inputs, _thr = c10._repeated_subexpr_program(ch, min_triples=1)
            try:
                lang.Interp(stmts).run({i["name"]: i["init"] for i in inputs})
                break
            except lang.RefError:
                continue
        sub = {"stmts": stmts}
    elif fam == "geom":
        sub = geom.gen_geom_case(ch, "quick", PROP, poles="never")
    elif fam == "c02":
        from . import c02

        sub = c02.gen_case(ch, "quick")
    else:
        sub = {"c01": c01, "c03": c03, "c04": c04, "c05": c05, "c06": c06}[fam].gen_case(ch, "quick")
    if src is None:
        src = lang.pprogram(sub["stmts"])
    n_inv = ch.rint(4, 6) if tier == "quick" else ch.rint(12, 24)
    invs = []
    # pairs (string, --json) of the same configuration, over sampled configurations
    for _ in range(n_inv // 2):
        entry = ch.pick(["cli", "module", "compile_py"])
        cfg = {
            "entry": entry,
            "input": "file" if entry == "compile_py" else ch.pick(["file", "-i"]),
            "out": ch.pick(["stdout", "-o", "-o-newdir"]),
            "no_opt": ch.chance(1, 4),
            "poles": ch.pick([None, None, "small", "medium", "big", "substation"]),
            "name": ch.pick([None, None, "My Circuit", "x"]),
        }
        invs.append(dict(cfg, json=False))
        invs.append(dict(cfg, json=True, out=ch.pick(["stdout", "-o", "-o-newdir"]),
                         entry=ch.pick(["cli", "module", "compile_py"]) if cfg["input"] == "file" else ch.pick(["cli", "module"])))
    return {"prop": PROP, "source": src, "family": fam, "invocations": invs,
            "file_stem": ch.pick(["prog", "my_program", "a b", "x-y_z"])}


def decode(text: str):
    t = text.strip()
    if t.startswith("{"):
        return json.loads(t)
    if not t or t[0] != "0":
        raise ValueError("blueprint string must start with the version byte '0'")
    return json.loads(zlib.decompress(base64.b64decode(t[1:])).decode("utf-8"))


def _sig_name(d):
    return d.get("name") if isinstance(d, dict) else None


def _expect_operand(side_sig, side_const, want, what, where):
    if isinstance(want, int) and not isinstance(want, bool):
        if (side_const or 0) != want:
            raise Violation("planned-config-missing", {"what": what, "planned": want, "emitted": side_const, "where": where})
    elif isinstance(want, str):
        if _sig_name(side_sig) != want:
            raise Violation("planned-config-missing", {"what": what, "planned": want, "emitted": side_sig, "where": where})


def check_against_plan(bp: dict, plan_obj, res: dict) -> None:
    """Every planned placement is in the text at its position with its configuration; every
    planned wire is in the text."""
    ents = bp["blueprint"].get("entities", [])
    by_pos = {}
    for e in ents:
        by_pos.setdefault((e["name"], round(e["position"]["x"], 3), round(e["position"]["y"], 3)), []).append(e)
    num_of = {}
    for pid, pl in plan_obj.entity_placements.items():
        if pl.position is None:
            raise Violation("planned-entity-without-position", {"id": pid})
        key = (pl.entity_type, round(pl.position[0], 3), round(pl.position[1], 3))
        lst = by_pos.get(key)
        if not lst:
            raise Violation("planned-entity-missing", {"id": pid, "type": pl.entity_type,
                                                       "position": list(pl.position)})
        e = lst[0]
        num_of[pid] = e["entity_number"]
        props = pl.properties
        cb = e.get("control_behavior") or {}
        where = {"id": pid, "type": pl.entity_type}
        if pl.entity_type == "arithmetic-combinator":
            ac = cb.get("arithmetic_conditions")
            if ac is None:
                raise Violation("planned-config-missing", {"what": "arithmetic_conditions", "where": where})
            if (ac.get("operation", "*")) != props.get("operation", "+"):
                raise Violation("planned-config-missing", {"what": "operation", "planned": props.get("operation"),
                                                           "emitted": ac.get("operation", "*"), "where": where})
            _expect_operand(ac.get("first_signal"), ac.get("first_constant"), props.get("left_operand"), "first operand", where)
            _expect_operand(ac.get("second_signal"), ac.get("second_constant"), props.get("right_operand"), "second operand", where)
            out = props.get("output_signal")
            if out == "signal-each" and props.get("left_operand") != "signal-each" and props.get("right_operand") != "signal-each":
                out = "signal-0"
            if out and _sig_name(ac.get("output_signal")) != out:
                raise Violation("planned-config-missing", {"what": "output signal", "planned": out,
                                                           "emitted": ac.get("output_signal"), "where": where})
            for side, key in (("left", "first"), ("right", "second")):
                wires = props.get(f"{side}_operand_wires")
                if isinstance(props.get(f"{side}_operand"), str) and wires and set(wires) != {"red", "green"}:
                    nets = ac.get(f"{key}_signal_networks") or {}
                    got = {c for c in ("red", "green") if nets.get(c, True)}
                    if got != set(wires):
                        raise Violation("planned-config-missing", {"what": f"{key} operand network selection",
                                                                   "planned": sorted(wires), "emitted": sorted(got), "where": where})
            probe(res, "arith_config_checked")
        elif pl.entity_type == "decider-combinator":
            dc = cb.get("decider_conditions")
            if dc is None:
                raise Violation("planned-config-missing", {"what": "decider_conditions", "where": where})
            conds = dc.get("conditions") or []
            outs = dc.get("outputs") or []
            planned = props.get("conditions") or props.get("multi_conditions")
            if planned:
                if len(conds) != len(planned):
                    raise Violation("planned-config-missing", {"what": "number of condition rows",
                                                               "planned": len(planned), "emitted": len(conds), "where": where})
                for pc, ec in zip(planned, conds):
                    if _CMP.get(pc.get("comparator", ">"), pc.get("comparator")) != _CMP.get(ec.get("comparator", "<"), ec.get("comparator", "<")):
                        raise Violation("planned-config-missing", {"what": "comparator", "planned": pc.get("comparator"),
                                                                   "emitted": ec.get("comparator", "<"), "where": where})
                    if pc.get("first_signal") and _sig_name(ec.get("first_signal")) != pc["first_signal"]:
                        raise Violation("planned-config-missing", {"what": "condition first signal", "planned": pc["first_signal"],
                                                                   "emitted": ec.get("first_signal"), "where": where})
                    if pc.get("second_signal") and _sig_name(ec.get("second_signal")) != pc["second_signal"]:
                        raise Violation("planned-config-missing", {"what": "condition second signal", "planned": pc["second_signal"],
                                                                   "emitted": ec.get("second_signal"), "where": where})
                    if not pc.get("second_signal") and pc.get("second_constant") is not None and ec.get("constant", 0) != pc["second_constant"]:
                        raise Violation("planned-config-missing", {"what": "condition constant", "planned": pc["second_constant"],
                                                                   "emitted": ec.get("constant", 0), "where": where})
                    # the row's network selection (latches read the input on red, their own output on green)
                    for key in ("first", "second"):
                        wires = pc.get(f"{key}_signal_wires")
                        if pc.get(f"{key}_signal") and wires and set(wires) != {"red", "green"}:
                            nets = ec.get(f"{key}_signal_networks") or {}
                            got = {c for c in ("red", "green") if nets.get(c, True)}
                            if got != set(wires):
                                raise Violation("planned-config-missing", {
                                    "what": f"condition row {key} network selection", "planned": sorted(wires),
                                    "emitted": sorted(got), "where": where})
                    if (pc.get("compare_type") or "or") != (ec.get("compare_type") or "or") and pc is not planned[0]:
                        raise Violation("planned-config-missing", {"what": "row compare type", "planned": pc.get("compare_type"),
                                                                   "emitted": ec.get("compare_type"), "where": where})
                probe(res, "multi_condition_config_checked")
            else:
                if len(conds) != 1:
                    raise Violation("planned-config-missing", {"what": "single condition row", "emitted": len(conds), "where": where})
                ec = conds[0]
                if _CMP.get(props.get("operation", "="), props.get("operation")) != _CMP.get(ec.get("comparator", "<"), ec.get("comparator", "<")):
                    raise Violation("planned-config-missing", {"what": "comparator", "planned": props.get("operation"),
                                                               "emitted": ec.get("comparator", "<"), "where": where})
                left, right = props.get("left_operand"), props.get("right_operand")
                if isinstance(left, str):
                    _expect_operand(ec.get("first_signal"), None, left, "condition first signal", where)
                if isinstance(right, str):
                    _expect_operand(ec.get("second_signal"), None, right, "condition second signal", where)
                elif isinstance(right, int) and isinstance(left, str) and ec.get("constant", 0) != right:
                    raise Violation("planned-config-missing", {"what": "condition constant", "planned": right,
                                                               "emitted": ec.get("constant", 0), "where": where})
                for side, key in (("left", "first"), ("right", "second")):
                    wires = props.get(f"{side}_operand_wires")
                    if isinstance(props.get(f"{side}_operand"), str) and wires and set(wires) != {"red", "green"}:
                        nets = ec.get(f"{key}_signal_networks") or {}
                        got = {c for c in ("red", "green") if nets.get(c, True)}
                        if got != set(wires):
                            raise Violation("planned-config-missing", {
                                "what": f"condition {key} operand network selection", "planned": sorted(wires),
                                "emitted": sorted(got), "where": where})
            if len(outs) != 1:
                raise Violation("planned-config-missing", {"what": "output row", "emitted": len(outs), "where": where})
            o = outs[0]
            if props.get("output_signal") and _sig_name(o.get("signal")) != props["output_signal"]:
                raise Violation("planned-config-missing", {"what": "output signal", "planned": props["output_signal"],
                                                           "emitted": o.get("signal"), "where": where})
            copy = bool(props.get("copy_count_from_input", False))
            if bool(o.get("copy_count_from_input", True)) != copy:
                raise Violation("planned-config-missing", {"what": "copy_count_from_input", "planned": copy,
                                                           "emitted": o.get("copy_count_from_input", True), "where": where})
            if not copy and isinstance(props.get("output_value", 1), int) and o.get("constant", 1) != props.get("output_value", 1):
                raise Violation("planned-config-missing", {"what": "output constant", "planned": props.get("output_value", 1),
                                                           "emitted": o.get("constant", 1), "where": where})
            probe(res, "decider_config_checked")
        elif pl.entity_type == "constant-combinator":
            want = {}
            if props.get("signals"):
                want = dict(props["signals"])
            elif props.get("signal_name"):
                want = {props["signal_name"]: props.get("value", 0)}
            got = {}
            for sec in ((cb.get("sections") or {}).get("sections") or []):
                for f in sec.get("filters") or []:
                    got[f.get("name")] = got.get(f.get("name"), 0) + f.get("count", 0)
            for k, v in want.items():
                if got.get(k, 0) != v or (k not in got):
                    raise Violation("planned-config-missing", {"what": "constant section", "planned": {k: v},
                                                               "emitted": got, "where": where})
            probe(res, "constant_config_checked")
        else:
            pw = props.get("property_writes") or {}
            en = pw.get("enable")
            if en and en.get("type") in ("inline_comparison", "inline_bundle_condition", "signal"):
                if not cb.get("circuit_condition"):
                    raise Violation("planned-config-missing", {"what": "circuit condition", "where": where})
                probe(res, "entity_condition_checked")
    # wires
    have = set()
    for w in bp["blueprint"].get("wires", []):
        e1, c1, e2, c2 = w
        have.add((e1, c1, e2, c2))
        have.add((e2, c2, e1, c1))
    dual = {"arithmetic-combinator", "decider-combinator", "selector-combinator"}
    for wc in plan_obj.wire_connections:
        a, b = num_of.get(wc.source_entity_id), num_of.get(wc.sink_entity_id)
        if a is None or b is None:
            continue   # the emitter warns and skips wires to entities that were removed
        base = 1 if wc.wire_color == "red" else 2
        ta = plan_obj.entity_placements[wc.source_entity_id].entity_type
        tb = plan_obj.entity_placements[wc.sink_entity_id].entity_type
        ca = [base + 2] if (wc.source_side == "output" and ta in dual) else [base]
        cb_ = [base + 2] if (wc.sink_side == "output" and tb in dual) else [base]
        if not any((a, x, b, y) in have for x in ca for y in cb_):
            raise Violation("planned-wire-missing", {
                "from": wc.source_entity_id, "to": wc.sink_entity_id, "colour": wc.wire_color,
                "sides": [wc.source_side, wc.sink_side], "signal": wc.signal_name})
    res["compared"] += len(plan_obj.entity_placements) + len(plan_obj.wire_connections)


def _run(inv: dict, src: str, scratch: str, stem: str, idx: int, hashseed: str):
    args = [engine.PY]
    if inv["entry"] == "cli":
        args += ["-m", "dsl_compiler.cli"]
    elif inv["entry"] == "module":
        args += ["-m", "dsl_compiler"]
    else:
        args += [os.path.join(seam.REPO, "compile.py")]
    path = os.path.join(scratch, f"{stem}.facto")
    if inv["input"] == "file":
        args.append(path)
    else:
        args += ["-i", src]
    if inv["json"]:
        args.append("--json")
    out_path = None
    if inv["out"] == "-o":
        out_path = os.path.join(scratch, f"out{idx}.txt")
    elif inv["out"] == "-o-newdir":
        out_path = os.path.join(scratch, f"new{idx}", "deep", "out.blueprint")
    if out_path:
        args += ["-o", out_path]
    if inv["no_opt"]:
        args.append("--no-optimize")
    if inv["poles"]:
        args += ["--power-poles", inv["poles"]]
    if inv["name"]:
        args += ["--name", inv["name"]]
    args += ["--log-level", "error"]
    env = dict(os.environ)
    env.update({"PYTHONPATH": SHIM_DIR + os.pathsep + seam.REPO, "FACTOMPILER_VERIF": "1",
                "FACTOSIM_SHIM": "1", "FACTOSIM_VERIF_DIR": engine.VERIF, "PYTHONHASHSEED": hashseed,
                "PYTHONDONTWRITEBYTECODE": "1"})
    p = subprocess.run(args, capture_output=True, text=True, env=env, cwd=scratch, timeout=90)
    text = None
    if out_path:
        if os.path.exists(out_path):
            with open(out_path, encoding="utf-8") as fh:
                text = fh.read()
    else:
        text = p.stdout
    return p.returncode, text, p.stderr[-600:], out_path


def run_case(case: dict) -> dict:
    res = base_result(case)
    src = case["source"]
    res["source"] = src
    hashseed = os.environ.get("PYTHONHASHSEED", "0")
    scratch = tempfile.mkdtemp(prefix="fv-c07-")
    stem = case.get("file_stem", "prog")
    path = os.path.join(scratch, f"{stem}.facto")
    start_cwd = os.getcwd()
    try:
        with open(path, "w", encoding="utf-8") as fh:
            fh.write(src)
        os.chdir(scratch)
        refs: dict = {}
        decoded: dict = {}
        for idx, inv in enumerate(case["invocations"]):
            probe(res, f"entry_{inv['entry']}")
            probe(res, f"out_{inv['out']}")
            probe(res, "json" if inv["json"] else "string")
            key = (inv["input"], inv["no_opt"], inv["poles"])
            if key not in refs:
                ref = seam.compile_source(src, optimize=not inv["no_opt"], poles=inv["poles"], retries=3,
                                          plan=DET_PLAN,
                                          source_name=path if inv["input"] == "file" else "<string>")
                res["compiles"] += 1
                refs[key] = ref
            ref = refs[key]
            rc, text, err, out_path = _run(inv, src, scratch, stem, idx, hashseed)
            res["compiles"] += 1
            where = {"invocation": inv, "stderr": err}
            if not ref["ok"]:
                if rc == 0:
                    raise Violation("cli-accepts-what-the-api-refuses", where)
                probe(res, "refused_consistently")
                continue
            if rc != 0:
                raise Violation("cli-exit-nonzero", dict(where, exit=rc))
            if text is None:
                raise Violation("cli-output-file-missing", dict(where, path=out_path))
            if out_path and subprocess_stdout_looks_like_blueprint(text) is False:
                pass
            try:
                bp = decode(text)
            except Exception as exc:  # noqa: BLE001
                raise Violation("cli-output-does-not-decode", dict(where, error=repr(exc), head=text[:80])) from None
            if "blueprint" not in bp or not bp["blueprint"].get("entities"):
                raise Violation("cli-output-has-no-entities", where)
            if inv["name"] and inv["name"] not in (bp["blueprint"].get("label") or ""):
                raise Violation("name-option-ignored", dict(where, label=bp["blueprint"].get("label")))
            # completeness against the plan the compiler made (same source, options, shim, hash seed)
            check_against_plan(bp, ref["plan_obj"], res)
            # the text is the blueprint the API returns (apart from the label)
            a = json.loads(json.dumps(bp))
            b = json.loads(json.dumps(ref["bp"]))
            a["blueprint"].pop("label", None)
            b["blueprint"].pop("label", None)
            if a != b:
                ea, eb = a["blueprint"].get("entities", []), b["blueprint"].get("entities", [])
                diff = {"entities": [len(ea), len(eb)], "wires": [len(a["blueprint"].get("wires", [])), len(b["blueprint"].get("wires", []))]}
                for x, y in zip(ea, eb):
                    if x != y:
                        diff["first_differing_entity"] = [x, y]
                        break
                raise Violation("cli-text-differs-from-api-blueprint", dict(where, diff=diff))
            cfg_key = json.dumps({k: inv[k] for k in ("input", "no_opt", "poles", "name")}, sort_keys=True)
            prev = decoded.get(cfg_key)
            cur = json.loads(json.dumps(bp))
            cur["blueprint"].pop("label", None)
            if prev is not None and prev[1] != cur:
                raise Violation("string-and-json-forms-differ", {"first": prev[0], "second": inv})
            decoded[cfg_key] = (inv, cur)
            res["compared"] += 1
        res["sig"] = [seam.digest(src), [json.dumps(i, sort_keys=True) for i in case["invocations"]]]
        if res["compared"] == 0:
            res["status"] = "trivial"
    except Violation as v:
        res["status"] = "violation"
        res["violation"] = {"class": v.cls, "detail": v.detail}
    except subprocess.TimeoutExpired:
        res["status"] = "harness-error"
        res["error"] = "CLI subprocess timed out"
    finally:
        os.chdir(start_cwd)
        shutil.rmtree(scratch, ignore_errors=True)
    return res


def subprocess_stdout_looks_like_blueprint(text: str):
    return None


TIERS = {
    "quick": {"runs": 32, "budget_s": 100, "hashseeds": 4, "shrink_budget": 0, "struct_budget": 0,
              "max_reports": 3},
    "thorough": {"runs": 600, "budget_s": 1500, "hashseeds": 8, "shrink_budget": 0, "struct_budget": 0,
                 "max_reports": 6},
}
RULE = ("seeded programs (all families incl. memory) x sampled invocation matrix {dsl_compiler.cli, "
        "python -m dsl_compiler, compile.py} x {file, -i} x {string, --json} x {stdout, -o, -o into a new "
        "directory} x {--no-optimize} x {--power-poles T} x {--name}, 4-6 real subprocess invocations per "
        "program (12-24 thorough) under the sitecustomize solver shim; distinct = (program, invocation set)")
EXPECTED_PROBES = ["entry_cli", "entry_module", "entry_compile_py", "out_stdout", "out_-o", "out_-o-newdir",
                   "json", "string", "arith_config_checked", "decider_config_checked",
                   "constant_config_checked"]
REAL = ["the three CLI entry points as real subprocesses", "file / stdout / -o output paths",
        "draftsman export + base64/zlib encoding", "the whole compiler", "CP-SAT (deterministic shim)"]
STUB = ["nothing is executed in the world model here; behaviour follows from equality with the API "
        "blueprint that the other properties execute", "CP-SAT wall clock / threads (deterministic shim)"]
