"""C10 - optimisation never changes what the circuit does.

Twin = the same source compiled with optimize=True and optimize=False, each under its OWN fault
plan (the two builds also differ in layout outcome).  Both are driven by the same schedule:
settled outputs and entity conditions compared after every step (stateless, gated-cell, latch,
entity and bundle families), per-tick traces compared modulo one constant shift per observation
point for free-running self-referential cells."""
from __future__ import annotations

from .. import gamedata, gen, lang
from ..rng import Chooser
from . import c01, c02, c03, c04, c05, c06
from .common import (ModelGap, Obs, Violation, World, base_result, bind_input_aliases,
                     blueprint_probes, compile_case, input_inits, merge_fired, net_signature,
                     probe, skeleton)
from .twin import Twin, compare_obs, has_known_structure, observe

PROP = "C10"
FAMILIES = {"c01": c01, "c02": c02, "c03": c03, "c04": c04, "c05": c05, "c06": c06}


def _repeated_subexpr_program(ch: Chooser, min_triples: int = 0):
    """Programs biased to what the optimiser touches: repeated sub-expressions that differ only in
    output type or copy/constant mode, folded constants feeding property writes, high fan-out."""
    g = gen.ScalarGen(ch, gen.ScalarGen.swarm(ch))
    c = g.c
    for _ in range(ch.rint(1, 3)):
        g.add_input()
    base = g.expr(ch.rint(0, 2))
    cmp_ = ["bin", ch.pick(lang.CMP_OPS), g.sig_leaf(), ["lit", ch.i32_biased(-20, 20), 10]]
    variants = [
        base,
        ["proj", base, ch.pick(g.type_pool())],
        ["proj", base, ch.pick(g.type_pool())],
        ["sel", cmp_, g.sig_leaf()],
        ["sel", cmp_, ["lit", ch.i32_biased(-9, 9) or 1, 10]],
        cmp_,
        ["bin", "+", cmp_, ["lit", 0, 10]],
        ["bin", "*", ["lit", 2, 10], ["lit", 3, 10]],
    ]
    n = ch.rint(2, 7)
    for _ in range(n):
        e = ch.pick(variants)
        nm = c.fresh("s")
        c.stmts.append(["decl", "Signal", nm, e])
        c.sigs.append(nm)
    # reuse triples: a computed value t, a same-typed derived value T = f(t), and a consumer of both
    for _ in range(ch.rint(min_triples, 3)):
        src = g.sig_leaf()
        t = c.fresh("t")
        c.stmts.append(["decl", "Signal", t, ["bin", ch.pick(["*", "+", "-"]), src, ["lit", ch.rint(2, 9), 10]]])
        T = c.fresh("t")
        te = ["bin", ch.pick(["+", "*", "<<", "-"]), ["var", t], ["lit", ch.rint(1, 5), 10]]
        if ch.chance(1, 2):
            te = ["proj", te, ch.pick(g.type_pool())]      # derived value on another type: same colour
        c.stmts.append(["decl", "Signal", T, te])
        S = c.fresh("s")
        a, b = (["var", t], ["var", T]) if ch.chance(1, 2) else (["var", T], ["var", t])
        c.stmts.append(["decl", "Signal", S, ["bin", ch.pick(["-", "*", "XOR", "+", "/"]), a, b]])
        c.sigs += [t, T, S]
    for k in range(ch.rint(0, 3)):
        nm = f"lamp{k}"
        c.stmts.append(["place", nm, "small-lamp", ["lit", k * 2, 10], ["lit", -4, 10], None])
        c.stmts.append(["enable", nm, ch.pick([cmp_, ["var", ch.pick(c.sigs)],
                                               ["bin", "*", ["lit", 2, 10], ["lit", 3, 10]]])])
    return c.stmts, c.inputs, c.thresholds


def gen_case(ch: Chooser, tier: str = "quick") -> dict:
    fam = ch.weighted([(5, "c01"), (5, "repeat"), (2, "c02"), (2, "c03"), (2, "c05"), (2, "c06"), (2, "c04")])
    if fam == "repeat":
        for _ in range(20):
            stmts, inputs, thr = _repeated_subexpr_program(ch)
            try:
                lang.Interp(stmts).run({i["name"]: i["init"] for i in inputs})
                break
            except lang.RefError:
                continue
        case = {"stmts": stmts, "inputs": inputs,
                "history": gen.gen_history(ch, inputs, thr, ch.rint(1, 6)),
                "options": gen.gen_options(ch, allow_noopt=False), "plan": gen.gen_plan(ch)}
    else:
        case = FAMILIES[fam].gen_case(ch, tier)
    case["prop"] = PROP
    case["family"] = fam
    case["options"]["optimize"] = True
    case["plan_b"] = gen.gen_plan(ch)
    return case


def _drive_containers(case, w):
    ents = {}
    for c in case.get("containers") or []:
        e = c06._entity_at(w, c["proto"], (c["x"], c["y"]))
        if e is not None:
            ents[c["name"]] = e
    return ents


def run_case(case: dict) -> dict:
    res = base_result(case)
    stmts = case["stmts"]
    src = lang.pprogram(stmts)
    res["source"] = src
    opts_a = dict(case["options"], optimize=True)
    opts_b = dict(case["options"], optimize=False)
    ca = compile_case(src, opts_a, case["plan"])
    merge_fired(res, ca)
    cb = compile_case(src, opts_b, case.get("plan_b"))
    merge_fired(res, cb)
    res["events"] = [ca["events"], cb["events"]]
    if not ca["ok"] or not cb["ok"]:
        res["status"] = "refused"
        bad = ca if not ca["ok"] else cb
        res["refusal"] = {"stage": bad["stage"], "error": bad["error"], "crash": bad["crash"]}
        front = ("semantic", "parse", "parsing", "lowering")
        if ca["ok"] != cb["ok"] and bad["stage"] in front:
            res["status"] = "violation"
            res["violation"] = {"class": "accepted-only-with-one-setting", "detail": {
                "optimize_true_ok": ca["ok"], "optimize_false_ok": cb["ok"], "error": bad["error"]}}
        return res
    try:
        wa, wb = World(ca["bp"]), World(cb["bp"])
        blueprint_probes(res, wa)
        fam = case.get("family")
        probe(res, "family_" + str(fam))
        excl = set(case.get("exclude") or [])
        tw = Twin([wa, wb])
        memory = fam in ("c03", "c04", "c05")
        if "crosstalk" in excl and (has_known_structure(wa, tw.obs[0], memory, stmts, case["inputs"])
                                    or has_known_structure(wb, tw.obs[1], memory, stmts, case["inputs"])):
            res["status"] = "excluded"
            res["excluded_by"] = "crosstalk"
            return res
        if "crosstalk" in excl and fam in ("c02", "c06"):
            hit = False
            for w_, o_ in ((wa, tw.obs[0]), (wb, tw.obs[1])):
                if fam == "c02":
                    hit = hit or c02.known_crosstalk(w_, o_, stmts)
                else:
                    ents = [c06._entity_at(w_, c["proto"], (c["x"], c["y"])) for c in case.get("containers") or []]
                    hit = hit or c06.known_crosstalk(w_, o_, stmts, [e for e in ents if e is not None], anchors=True)
            if hit:
                from ..static_trigger import crosstalk_possible

                hit = crosstalk_possible(stmts, case["inputs"])
            if hit:
                res["status"] = "excluded"
                res["excluded_by"] = "crosstalk"
                return res
        if "same-source-two-roles" in excl and c02.same_source_two_roles(stmts):
            res["status"] = "excluded"
            res["excluded_by"] = "same-source-two-roles"
            return res
        if fam == "c02" and (c02.static_tags(stmts) | ({"same-source-two-roles"} if c02.same_source_two_roles(stmts) else set())) & excl:
            res["status"] = "excluded"
            res["excluded_by"] = "bundle-wiring"
            return res
        if len(wa.ents) < len(wb.ents):
            probe(res, "optimised_build_smaller")
        vals = input_inits(case)
        for o in tw.obs:
            bind_input_aliases(o, case)
        conts = [_drive_containers(case, w) for w in (wa, wb)]
        if fam == "c04":
            T = case.get("ticks", 80)
            tw.set_inputs(vals)
            traces = [{}, {}]
            for _t in range(T):
                for i, (w, o) in enumerate(zip(tw.ws, tw.obs)):
                    for k, v in observe(w, o).items():
                        traces[i].setdefault(k, []).append(v)
                    w.step()
            res["ticks"] += 2 * T
            warm = max(len(wa.combs), len(wb.combs)) + 4
            for k in set(traces[0]) & set(traces[1]):
                a, b = traces[0][k], traces[1][k]
                ok = False
                for d in range(-6, 7):
                    lo, hi = warm + 6, T - 7
                    if all(a[t] == b[t + d] for t in range(lo, hi)):
                        ok = True
                        break
                res["compared"] += 1
                if not ok:
                    raise Violation("optimisation-changes-free-running-behaviour", {
                        "at": list(map(str, k)), "optimised": repr(a[warm:warm + 16]),
                        "unoptimised": repr(b[warm:warm + 16])})
        else:
            steps = [{}] + list(case.get("history") or [])
            seen = []
            for si, step in enumerate(steps):
                if "__revisit__" in step:
                    step = dict(seen[step["__revisit__"] % len(seen)])
                for k, v in step.items():
                    if k.startswith("__emit__"):
                        nm = k[len("__emit__"):]
                        for cm, w in zip(conts, tw.ws):
                            if nm in cm:
                                w.set_emit(cm[nm].num, {gamedata.sk(t): x for t, x in v.items()})
                    elif not k.startswith("__"):
                        vals[k] = v
                seen.append(dict(vals))
                tw.set_inputs(vals)
                ts = tw.settle_all()
                res["ticks"] += sum(t or 0 for t in ts)
                if (ts[0] is None) != (ts[1] is None):
                    raise Violation("optimisation-changes-settling", {"step": si, "optimised": ts[0],
                                                                      "unoptimised": ts[1], "inputs": dict(vals)})
                if ts[0] is None:
                    probe(res, "neither_build_settles")
                    break
                compare_obs(observe(wa, tw.obs[0]), observe(wb, tw.obs[1]), res,
                            {"step": si, "inputs": dict(vals)}, "optimisation-changes-behaviour")
        res["sig"] = [skeleton(stmts), net_signature(wa), net_signature(wb), sorted(res["fired"])]
        if res["compared"] == 0:
            res["status"] = "trivial"
    except Violation as v:
        res["status"] = "violation"
        res["violation"] = {"class": v.cls, "detail": v.detail}
    except ModelGap as g:
        res["status"] = "gap"
        res["gap"] = str(g)
    except lang.RefError as r:
        res["status"] = "invalid"
        res["invalid"] = str(r)
    return res


TIERS = {
    "quick": {"runs": 400, "budget_s": 60, "hashseeds": 4, "shrink_budget": 48, "struct_budget": 160,
              "max_reports": 4},
    "thorough": {"runs": 12000, "budget_s": 1200, "hashseeds": 8, "shrink_budget": 300,
                 "struct_budget": 600, "max_reports": 8},
}
RULE = ("seeded programs from the scalar, repeated-subexpression, bundle, gated-cell, latch, entity and "
        "self-referential families, compiled twice (optimize on / off) under independent fault plans and "
        "driven by one schedule; every output anchor and entity condition compared at every settle point "
        "(free-running cells: per-tick traces modulo a constant shift); distinct = (program skeleton, both "
        "circuit shapes, fault kinds fired)")
EXPECTED_PROBES = ["optimised_build_smaller", "family_c01", "family_repeat", "family_c03", "family_c05",
                   "family_c04", "family_c06", "family_c02"]
