"""C15 - calling a function equals substituting its body.

G_func: functions with int / Signal / Entity parameters, locals (sometimes shadowing outer
names), local places and memories, nested calls, calls inside loops, entity-returning functions,
int -> Signal coercion at call sites, several call sites of one function.  The generator emits
the program and its manually inlined twin (parameters bound, locals renamed apart per call site,
return expression in place of the call).  Both are compiled under independent fault plans and
co-simulated over an input history; anchors compared as multisets per name group, entity
conditions and user-placed entities by prototype and tile.  Bodies with local memories are the
part only visible over ticks (each call site must own its cell)."""
from __future__ import annotations

import re

from .. import gen, lang
from ..rng import Chooser
from . import geom
from .common import (ModelGap, Violation, World, base_result, blueprint_probes, compile_case,
                     input_inits, merge_fired, net_signature, probe, skeleton)
from .twin import (Twin, base_group, compare_free_running, compare_obs, has_known_structure,
                   inline_calls, observe)

PROP = "C15"
_RE_FUNC = re.compile(r"^func (\w+)\(")
_RE_DESC_LINE = re.compile(r"^\[[^\]:]*:(\d+)\]")
_RE_INLINED = re.compile(r"^(.*?)__(f\d+)c\d+(?:__.*)?$")


def gen_case(ch: Chooser, tier: str = "quick") -> dict:
    for _attempt in range(40):
        g = gen.ScalarGen(ch, gen.ScalarGen.swarm(ch))
        c = g.c
        for _ in range(ch.rint(1, 3)):
            g.add_input()
        for _ in range(ch.rint(0, 2)):
            g.add_int()
        for _ in range(ch.rint(0, 2)):
            nm = c.fresh("s")
            c.stmts.append(["decl", "Signal", nm, g.expr(ch.rint(0, 1))])
            c.sigs.append(nm)
        outer_names = list(c.sigs)
        funcs = []
        stateful = False
        placing = False
        row = [0]
        n_f = ch.weighted([(2, 1), (3, 2), (1, 3)])
        for fi in range(n_f):
            fname = f"f{fi + 1}"
            params = [["Signal", "x"]]
            if ch.chance(1, 2):
                params.append(["int", "k"])
            if ch.chance(1, 3):
                params.append(["Signal", "y"])
            body = []
            locs = ["x"] + (["y"] if ["Signal", "y"] in params else [])
            has_k = ["int", "k"] in params

            def operand():
                r = ch.draw(4)
                if r == 0 and has_k:
                    return ["var", "k"]
                if r == 1:
                    return ["lit", ch.i32_biased(-9, 9), 10]
                return ["var", ch.pick(locs)]

            for _ in range(ch.rint(0, 3)):
                # local; sometimes its name shadows an outer name
                nm = ch.pick(outer_names) if (outer_names and ch.chance(1, 5)) else f"t{len(body) + 1}"
                if nm in [p[1] for p in params] or nm in locs:
                    continue
                op = ch.pick(["+", "-", "*", ">", "<=", "AND", "%"])
                rhs = operand()
                if op == "%":
                    rhs = ["lit", ch.pick([3, 7, 10]), 10]
                body.append(["decl", "Signal", nm, ["bin", op, ["var", ch.pick(locs)], rhs]])
                locs.append(nm)
            sig_funcs = [f_ for f_ in funcs if f_[4] != ["var", "lamp"]]
            kind = ch.weighted([(4, "plain"), (3, "mem"), (2, "place"), (2 if sig_funcs else 0, "nested")])
            if kind == "mem":
                stateful = True
                body.append(["mem", "cnt", "signal-C"])
                body.append(["write", "cnt", ["bin", "+", ["read", "cnt"], ["lit", ch.rint(1, 3), 10]], None])
                locs.append("cv")
                body.append(["decl", "Signal", "cv", ["read", "cnt"]])
            elif kind == "place":
                placing = True
                params.append(["int", "px"])
                body.append(["place", "lamp", ch.pick(["small-lamp", "inserter"]),
                             ["var", "px"], ["lit", -6 - 2 * fi, 10], None])
                body.append(["enable", "lamp", ["bin", ch.pick(lang.CMP_OPS), ["var", ch.pick(locs)],
                                                ["lit", ch.i32_biased(-20, 20), 10]]])
            elif kind == "nested":
                inner = ch.pick(sig_funcs)
                args = _args(ch, inner, locs, has_k, g, row, inside=True)
                body.append(["decl", "Signal", "inner", ["call", inner[1], args]])
                locs.append("inner")
            ret = ["bin", ch.pick(["+", "*", "-"]), ["var", ch.pick(locs)], operand()]
            if ch.chance(1, 5):
                # a selection: with a literal argument the condition can be decided at compile time
                ret = ["sel", ["bin", ch.pick(lang.CMP_OPS), ["var", ch.pick(locs)], operand()],
                       ["var", ch.pick(locs)]]
            if kind == "place" and ch.chance(1, 3):
                ret = ["var", "lamp"]          # entity-returning function
            f = ["func", fname, params, body, ret]
            funcs.append(f)
            c.stmts.append(f)
        factory_named = [False]
        ent_vars: list = []
        # a caller-side Entity whose name equals the callee's local entity name
        clash = placing and ch.chance(1, 2)
        if clash:
            c.stmts.append(["place", "lamp", "small-lamp", ["lit", 44, 10], ["lit", -20, 10], None])
        # call sites
        _uses_mod[0] = any('"%"' in repr(f_).replace("'", '"') for f_ in funcs)
        n_calls = ch.rint(1, 4)
        cover = ch.chance(1, 2)      # every function called at least once (two helpers that each
        if cover:                    # own a local `cnt` are only interesting when both run)
            n_calls = max(n_calls, len(funcs))
        for ci in range(n_calls):
            f = funcs[ci] if (cover and ci < len(funcs)) else ch.pick(funcs)
            args = _args(ch, f, None, False, g, row, inside=False)
            if f[4] == ["var", "lamp"]:
                nm = c.fresh("e")
                if not clash and not factory_named[0] and ch.chance(1, 2):
                    nm = "lamp"           # factory pattern: caller variable named like the callee's local
                    factory_named[0] = True
                c.stmts.append(["decl", "Entity", nm, ["call", f[1], args]])
                ent_vars.append(nm)
            else:
                nm = c.fresh("r")
                c.stmts.append(["decl", "Signal", nm, ["call", f[1], args]])
                if ch.chance(1, 3):
                    c.stmts.append(["decl", "Signal", c.fresh("u"), ["bin", "+", ["var", nm], ["lit", 1, 10]]])
                if ch.chance(1, 3):
                    # an entity watching the result: entities never fold away, so a result that
                    # was wrongly frozen into a constant still shows (its anchor would vanish)
                    w_ = c.fresh("w")
                    c.stmts.append(["place", w_, "small-lamp", ["lit", 50 + 2 * ci, 10], ["lit", -30, 10], None])
                    c.stmts.append(["enable", w_, ["bin", ch.pick(lang.CMP_OPS), ["var", nm],
                                                   ["lit", ch.i32_biased(-20, 20), 10]]])
        if clash:
            c.stmts.append(["enable", "lamp", ["bin", ch.pick(lang.CMP_OPS), g.sig_leaf(),
                                               ["lit", ch.i32_biased(-9, 9), 10]]])
        if factory_named[0] and len(ent_vars) >= 2:
            # the factory's own enable is overwritten by nothing: use a different property-free check:
            # just make sure later statements that name `lamp` still mean the first placed entity
            pass
        if ch.chance(1, 4):
            f = ch.pick(funcs)
            if f[4] != ["var", "lamp"] and not any(p[1] == "px" for p in f[2]):
                it = ["range", ["lit", 0, 10], ["lit", ch.rint(1, 3), 10], None]
                args = []
                for pt, pn in f[2]:
                    if pt == "int":
                        args.append(["var", "li"])
                    else:
                        args.append(g.sig_leaf())
                c.stmts.append(["for", "li", it, [["decl", "Signal", "lr", ["call", f[1], args]]]])
        stmts = c.stmts
        try:
            tw_stmts = inline_calls(stmts)
            lang.Interp(stmts).run({i["name"]: i["init"] for i in c.inputs}, {})
            it2 = lang.Interp(tw_stmts)
            it2.run({i["name"]: i["init"] for i in c.inputs}, {})
            occ = geom.Occupancy()
            ok = True
            for p in it2.places:
                if not occ.free(p.proto, p.x, p.y):
                    ok = False
                    break
                occ.take(p.proto, p.x, p.y)
            if not ok:
                continue
        except lang.RefError:
            continue
        break
    else:
        raise RuntimeError("function generator failed")
    hist = gen.gen_history(ch, c.inputs, c.thresholds, ch.rint(1, 5), one_at_a_time=stateful)
    return {"prop": PROP, "stmts": stmts, "inputs": c.inputs, "history": hist, "stateful": stateful,
            "placing": placing, "options": gen.gen_options(ch, allow_poles=False),
            "plan": gen.gen_plan(ch), "plan_b": gen.gen_plan(ch)}


_uses_mod = [False]


def _args(ch, f, locs, has_k, g, row, inside: bool):
    args = []
    for pt, pn in f[2]:
        if pt == "int":
            if pn == "px":
                row[0] += 1
                args.append(["lit", row[0] * 2 - 14, 10] if not inside else ["lit", row[0] * 2 - 14, 10])
            elif inside and has_k and ch.chance(1, 2):
                args.append(["var", "k"])
            else:
                args.append(["lit", ch.i32_biased(-9, 9), 10])
        elif pt == "Signal":
            r = ch.draw(5)
            if inside:
                args.append(["var", ch.pick(locs)] if r else ["lit", ch.rint(1, 9), 10])
            elif r == 0:
                # int -> Signal coercion; everything the callee computes from it is folded at
                # compile time, so a negative dividend of `%` would test C11 (folder vs run-time
                # arithmetic, not claimed) instead of this property
                lo = 0 if _uses_mod[0] else -20
                args.append(["lit", ch.i32_biased(lo, 20), 10])
            elif r == 1:
                args.append(["bin", ch.pick(["+", "*"]), g.sig_leaf(), ["lit", ch.rint(1, 5), 10]])
            else:
                args.append(g.sig_leaf())
    return args


def _const_signal_arg(stmts) -> bool:
    """Static trigger: a Signal parameter receives a compile-time constant (int -> Signal
    coercion); everything computed from it inside the callee is a constant expression."""
    funcs = {s[1]: s for s in stmts if s[0] == "func"}
    ints = {s[2] for s in stmts if s[0] == "decl" and s[1] == "int"}

    def const(e, extra=frozenset()) -> bool:
        if e[0] == "lit":
            return True
        if e[0] == "var":
            return e[1] in ints or e[1] in extra
        if e[0] in ("bin",):
            return const(e[2], extra) and const(e[3], extra)
        if e[0] == "neg":
            return const(e[1], extra)
        return False

    def walk(e, extra=frozenset()) -> bool:
        if not isinstance(e, list) or not e:
            return False
        if e[0] == "call" and e[1] in funcs:
            for (pt, _pn), a in zip(funcs[e[1]][2], e[2]):
                if pt == "Signal" and const(a, extra):
                    return True
        return any(walk(x, extra) for x in e[1:] if isinstance(x, list)) or \
            any(walk(y, extra) for x in e[1:] if isinstance(x, list) and x and isinstance(x[0], list) for y in x)

    for s in stmts:
        if s[0] == "func":
            iparams = frozenset(pn for pt, pn in s[2] if pt == "int")
            if any(walk(b, iparams) for b in s[3]) or (s[4] is not None and walk(s[4], iparams)):
                return True
        elif s[0] == "for":
            if any(walk(b, frozenset([s[1]])) for b in s[3]):
                return True
        elif walk(s):
            return True
    return False


def run_case(case: dict) -> dict:
    res = base_result(case)
    stmts = case["stmts"]
    try:
        tw_stmts = inline_calls(stmts)
    except lang.RefError as r:
        res["status"] = "invalid"
        res["invalid"] = str(r)
        return res
    if not gen.in_claimed_domain(tw_stmts, lit_decls_const=True):
        # a literal argument makes the callee's arithmetic compile-time arithmetic: outside the
        # domain where folders and combinators agree (C11, not claimed) nothing is judged
        res["status"] = "invalid"
        res["invalid"] = "outside-claimed-domain"
        return res
    src_a, src_b = lang.pprogram(stmts), lang.pprogram(tw_stmts)
    res["sources"] = {"calls": src_a, "inlined": src_b}
    res["source"] = src_a
    ca = compile_case(src_a, case["options"], case["plan"])
    merge_fired(res, ca)
    cb = compile_case(src_b, case["options"], case.get("plan_b"))
    merge_fired(res, cb)
    res["events"] = [ca["events"], cb["events"]]
    front = ("semantic", "parse", "parsing", "lowering", "error")
    if not ca["ok"] or not cb["ok"]:
        bad = ca if not ca["ok"] else cb
        res["status"] = "refused"
        res["refusal"] = {"stage": bad["stage"], "error": bad["error"], "crash": bad["crash"]}
        if cb["ok"] and not ca["ok"] and ca["stage"] in front:
            res["status"] = "violation"
            res["violation"] = {"class": "call-refused-but-inlined-accepted", "detail": {"error": ca["error"]}}
        return res
    try:
        wa, wb = World(ca["bp"]), World(cb["bp"])
        blueprint_probes(res, wa)
        excl = set(case.get("exclude") or [])
        probe(res, "stateful_body" if case.get("stateful") else "stateless_body")
        tw = Twin([wa, wb], [src_a, src_b])
        if "crosstalk" in excl and (has_known_structure(wa, tw.obs[0], True, tw_stmts, case["inputs"])
                                    or has_known_structure(wb, tw.obs[1], True, tw_stmts, case["inputs"])):
            res["status"] = "excluded"
            res["excluded_by"] = "crosstalk"
            return res
        if "same-source-two-roles" in excl:
            from .c02 import same_source_two_roles

            if same_source_two_roles(tw_stmts):
                res["status"] = "excluded"
                res["excluded_by"] = "same-source-two-roles"
                return res
        it = lang.Interp(tw_stmts)
        it.run(input_inits(case), {})
        if it.places:
            geom.check_user_entities(wa, it.places, res)
            probe(res, "placing_body")
        # Locals of different functions may share a name (two helpers each with a `t2`): anchors are
        # grouped by (name, declaring function) - in the call build the function is the one whose
        # body contains the anchor's source line, in the inlined twin the renamer recorded it.
        func_of_line: dict = {}
        cur = None
        for ln, text in enumerate(src_a.split("\n"), 1):
            m_ = _RE_FUNC.match(text)
            if m_:
                cur = m_.group(1)
            if cur is not None:
                func_of_line[ln] = cur
            if text.startswith("}"):
                cur = None

        def g_call(name, ent):
            m_ = _RE_DESC_LINE.match(ent.desc or "")
            fn = func_of_line.get(int(m_.group(1))) if m_ else None
            return f"{name}@{fn}" if fn else base_group(name)

        def g_inl(name, _ent):
            m_ = _RE_INLINED.match(name)
            return f"{m_.group(1)}@{m_.group(2)}" if m_ else base_group(name)

        vals = input_inits(case)
        for si, step in enumerate([{}] + list(case["history"])):
            vals.update({k: v for k, v in step.items() if not k.startswith("__")})
            tw.set_inputs(vals)
            if case.get("stateful"):
                # local counters never rest and the inlined twin may have other latencies (its
                # `Signal x = 4;` is a declared circuit input, the call's argument a literal)
                res["ticks"] += 2 * compare_free_running(
                    tw, res, {"step": si, "inputs": dict(vals)}, "call-differs-from-inlining",
                    group=base_group, first_may_expose_fewer=True, group_ents=(g_call, g_inl))
                continue
            ts = tw.settle_all()
            res["ticks"] += sum(t or 0 for t in ts)
            if ts[0] is None or ts[1] is None:
                if (ts[0] is None) != (ts[1] is None):
                    raise Violation("call-differs-from-inlining", {"what": "settling", "step": si})
                break
            oa, ob = (observe(wa, tw.obs[0], base_group, g_call),
                      observe(wb, tw.obs[1], base_group, g_inl))
            compare_obs(oa, ob, res, {"step": si, "inputs": dict(vals)}, "call-differs-from-inlining",
                        first_may_expose_fewer=True)
        res["sig"] = [skeleton(stmts), net_signature(wa), sorted(res["fired"])]
        if res["compared"] == 0:
            res["status"] = "trivial"
    except Violation as v:
        res["status"] = "violation"
        res["violation"] = {"class": v.cls, "detail": v.detail}
    except ModelGap as g:
        res["status"] = "gap"
        res["gap"] = str(g)
    except lang.RefError as r:
        res["status"] = "invalid"
        res["invalid"] = str(r)
    return res


TIERS = {
    "quick": {"runs": 400, "budget_s": 60, "hashseeds": 4, "shrink_budget": 48, "struct_budget": 0,
              "max_reports": 4},
    "thorough": {"runs": 12000, "budget_s": 1200, "hashseeds": 8, "shrink_budget": 300,
                 "struct_budget": 0, "max_reports": 8},
}
RULE = ("seeded programs with 1-2 functions (int / Signal / Entity-returning, locals incl. names shadowing "
        "outer ones, local memories and places, nested calls) and 1-4 call sites plus calls inside loops, "
        "int->Signal coercion at call sites; twin = manual inlining with per-call fresh names; both "
        "compiled under independent fault plans and co-simulated over an input history; distinct = "
        "(program skeleton, circuit shape, fault kinds fired)")
EXPECTED_PROBES = ["stateful_body", "stateless_body", "placing_body"]
