"""C16 - a for loop equals its unrolling.

The reference IS the unrolling: the generator-side semantics expand `for i in a..b [step s]` and
list iterators exactly as documented (exclusive end, default step 1, either direction with an
explicit step, empty ranges, non-dividing steps, int-variable bounds, nesting <= 3) and print the
unrolled twin with per-iteration fresh names.  Both programs are compiled (own fault plans) and
co-simulated over one input history: output anchors compared as multisets per name group, entity
conditions and user-placed entities by prototype and tile.  Bodies that declare memories are the
part only visible over ticks (each iteration must own its cell); stateless bodies are reported
separately."""
from __future__ import annotations

from .. import gamedata, gen, lang
from ..rng import Chooser
from . import geom
from .common import (ModelGap, Obs, Violation, World, base_result, blueprint_probes,
                     compile_case, input_inits, merge_fired, net_signature, probe, skeleton)
from .twin import (Twin, base_group, compare_obs, has_known_structure, observe, unroll)

PROP = "C16"


def _range(ch: Chooser, ints: dict):
    k = ch.weighted([(5, "range"), (2, "list"), (2, "varbound")])
    if k == "list":
        n = ch.rint(0, 4)
        return ["list", [ch.rint(-6, 9) for _ in range(n)]]
    if ch.chance(1, 8):
        a, b = ch.rint(-5, 6), ch.rint(-5, 8)          # anything, incl. mismatched direction
        step = ch.pick([None, 1, 2, -1, -2, 5])
    else:
        step = ch.pick([None, None, 1, 2, 3, -1, -2, -3])
        st = step or 1
        n = ch.weighted([(1, 0), (2, 1), (3, 2), (3, 3), (2, 4), (1, 5)])
        a = ch.rint(-5, 6)
        sgn = 1 if st > 0 else -1
        if n == 0:
            b = a - sgn * ch.rint(0, 2)
        else:
            b = a + (n - 1) * st + sgn * (1 + ch.rint(0, abs(st) - 1))   # non-dividing ends too
    ae, be = ["lit", a, 10], ["lit", b, 10]
    se = None if step is None else ["lit", step, 10]
    if k == "varbound" and ints:
        nm = ch.pick(sorted(ints))
        if ch.chance(1, 2):
            be = ["var", nm]
        else:
            ae = ["var", nm]
    return ["range", ae, be, se]


def _count(it, ints) -> int:
    from .twin import loop_values

    return len(loop_values(it, ints))


def gen_case(ch: Chooser, tier: str = "quick") -> dict:
    for _attempt in range(40):
        g = gen.ScalarGen(ch, gen.ScalarGen.swarm(ch))
        c = g.c
        for _ in range(ch.rint(1, 3)):
            g.add_input()
        for _ in range(ch.rint(0, 2)):
            g.add_int()
        # keep int variables usable as loop bounds small
        ints = {k: v for k, v in c.ints.items() if -8 <= v <= 10}
        stateful = False
        uses_func = False
        if ch.chance(1, 4):
            c.stmts.append(["func", "scale", [["Signal", "x"], ["int", "k"]], [],
                            ["bin", "+", ["bin", "*", ["var", "x"], ["var", "k"]], ["lit", 1, 10]]])
            uses_func = True
        occ = geom.Occupancy()
        row = [0]

        def body(depth: int, iters: list[str], budget: list[int]):
            out = []
            mine: list = []      # Signal names declared in this body so far (local to the iteration)
            n = ch.rint(1, 3)
            for _ in range(n):
                kind = ch.weighted([(4, "sig"), (3, "place"), (1, "mem"), (1 if uses_func else 0, "call"),
                                    (2 if depth < 3 else 0, "nest"), (2, "siglit"), (2, "itproj")])
                itv = ["var", ch.pick(iters)]
                if kind == "sig":
                    op = ch.pick(["+", "-", "*", ">", "==", "<=", "%"])
                    rhs = itv if ch.chance(2, 3) else ["bin", "*", itv, ["lit", ch.rint(1, 4), 10]]
                    if op == "%":
                        rhs = ["bin", "+", ["bin", "*", itv, itv], ["lit", 1, 10]]
                    out.append(["decl", "Signal", c.fresh("t"), ["bin", op, g.sig_leaf(), rhs]])
                    mine.append(out[-1][2])
                elif kind == "siglit":
                    t = ch.pick(gen.VIRTUALS)
                    val = ["bin", ch.pick(["+", "*", "-"]), itv, ["lit", ch.rint(-3, 5), 10]]
                    nm = c.fresh("t")
                    out.append(["decl", "Signal", nm, ["siglit", t, val]])
                    out.append(["decl", "Signal", c.fresh("t"), ["bin", "+", ["var", nm], g.sig_leaf()]])
                    mine += [nm, out[-1][2]]
                elif kind == "itproj":
                    # the bare iterator (or a nested projection of it) given a type
                    t = ch.pick(gen.VIRTUALS)
                    val = ["proj", itv, t]
                    if ch.chance(1, 4):
                        val = ["proj", val, ch.pick(gen.VIRTUALS)]
                    nm = c.fresh("t")
                    out.append(["decl", "Signal", nm, val])
                    mine.append(nm)
                    if ch.chance(1, 2):
                        out.append(["decl", "Signal", c.fresh("t"), ["bin", ch.pick(["+", "*"]), ["var", nm], g.sig_leaf()]])
                        mine.append(out[-1][2])
                elif kind == "place":
                    row[0] += 1
                    y = row[0] * 2 - 12
                    x = ["bin", "+", ["bin", "*", itv, ["lit", ch.pick([1, 2, 3]), 10]], ["lit", ch.rint(-4, 4), 10]]
                    if len(iters) > 1 and ch.chance(1, 2):
                        x = ["bin", "+", x, ["bin", "*", ["var", iters[0]], ["lit", 40, 10]]]
                    nm = c.fresh("lamp")
                    out.append(["place", nm, ch.pick(["small-lamp", "small-lamp", "inserter"]), x, ["lit", y, 10], None])
                    if mine and ch.chance(1, 2):
                        # an entity per iteration watching an iteration-local value: entities never
                        # fold or merge, so every iteration's own value stays observable
                        out.append(["enable", nm, ["bin", ch.pick(lang.CMP_OPS), ["var", ch.pick(mine)],
                                                   ["lit", ch.rint(-3, 6), 10] if ch.chance(1, 2) else g.sig_leaf()]])
                    elif ch.chance(3, 4):
                        out.append(["enable", nm, ["bin", ch.pick(lang.CMP_OPS), g.sig_leaf(), itv]])
                elif kind == "mem":
                    nonlocal_state[0] = True
                    m = c.fresh("m")
                    t = ch.pick(["signal-M", "signal-N", "signal-P"])
                    out.append(["mem", m, t])
                    out.append(["write", m, ["bin", "+", ["read", m], ["bin", "+", itv, ["lit", 1, 10]]], None])
                    out.append(["decl", "Signal", c.fresh("r"), ["read", m]])
                elif kind == "call":
                    out.append(["decl", "Signal", c.fresh("t"), ["call", "scale", [g.sig_leaf(), itv]]])
                elif kind == "nest":
                    iv = f"jt{depth}"
                    it = _range(ch, {})
                    if ints and ch.chance(1, 2):
                        out += shadow_nest(depth, iters, budget)
                        continue
                    out.append(["for", iv, it, body(depth + 1, iters + [iv], budget)])
            return out

        def shadow_nest(depth: int, iters: list[str], budget: list[int]) -> list:
            """`int <name of a top-level int> = v; for j in a..<that name> { ... }`: the nested
            bound is an int declared in this iteration under the name of a top-level int with
            another value (the declaration shadows it for this iteration only; loops and
            coordinates after the loop use the outer value again).  A fresh name is refused by the
            compiler here (an int declared in a loop body is only a compile-time integer when the
            name is one at top level), so it is not generated."""
            iv = f"jt{depth}"
            nm = ch.pick(sorted(ints))
            pre = ["decl", "int", nm, ["lit", ch.rint(0, 3), 10]]
            it = ["range", ["lit", ch.rint(-1, 1), 10], ["var", nm], None]
            nb = body(depth + 1, iters + [iv], budget)
            if not any(s_[0] == "place" for s_ in nb):
                # an entity per inner iteration: the number of copies stays observable (anchors
                # of iteration-local names may legitimately be fewer)
                row[0] += 1
                nb.append(["place", c.fresh("lamp"), "small-lamp",
                           ["bin", "+", ["bin", "+", ["var", iv], ["lit", ch.rint(-4, 4), 10]],
                            ["bin", "*", ["var", iters[0]], ["lit", 40, 10]]],
                           ["lit", row[0] * 2 - 12, 10], None])
            return [pre, ["for", iv, it, nb]]

        nonlocal_state = [False]
        n_loops = ch.rint(1, 2)
        rebind = ch.chance(1, 4)
        if rebind:
            c.stmts.append(["place", "cur", "small-lamp", ["lit", 30, 10], ["lit", -14, 10], None])
        for li in range(n_loops):
            iv = f"it{li}"
            it = _range(ch, ints)
            b = body(1, [iv], [0])
            if ints and ch.chance(1, 3):
                b += shadow_nest(1, [iv], [0])
            if rebind and li == 0:
                row[0] += 1
                b.append(["assign", "cur", ["place", None, "small-lamp",
                                            ["bin", "+", ["bin", "*", ["var", iv], ["lit", 2, 10]], ["lit", 50, 10]],
                                            ["lit", row[0] * 2 - 12, 10], None]])
                if ch.chance(1, 2):
                    b.append(["enable", "cur", ["bin", ch.pick(lang.CMP_OPS), g.sig_leaf(), ["var", iv]]])
            c.stmts.append(["for", iv, it, b])
        if rebind:
            c.stmts.append(["enable", "cur", ["bin", ch.pick(lang.CMP_OPS), g.sig_leaf(), ["lit", ch.i32_biased(-9, 9), 10]]])
        if ints and ch.chance(2, 3):
            # a top-level int used after the loops (coordinate): a body-local name must not leak
            c.stmts.append(["place", "after", "small-lamp", ["var", ch.pick(sorted(ints))], ["lit", 14, 10], None])
        stateful = nonlocal_state[0]
        stmts = c.stmts
        try:
            un = unroll(stmts)
            if sum(1 for s in un if s[0] in ("decl", "place")) > (60 if tier == "quick" else 200):
                continue
            itp = lang.Interp(un)
            itp.run({i["name"]: i["init"] for i in c.inputs}, {})
            # user entities of the unrolling must not overlap
            seen = set()
            ok = True
            for p in itp.places:
                if not occ.free(p.proto, p.x, p.y):
                    ok = False
                    break
                occ.take(p.proto, p.x, p.y)
            if not ok:
                continue
        except lang.RefError:
            continue
        break
    else:
        raise RuntimeError("loop generator failed")
    hist = gen.gen_history(ch, c.inputs, c.thresholds | set(range(-6, 10)), ch.rint(1, 5),
                           one_at_a_time=stateful)
    return {"prop": PROP, "stmts": stmts, "inputs": c.inputs, "history": hist, "stateful": stateful,
            "options": gen.gen_options(ch, allow_poles=False), "plan": gen.gen_plan(ch),
            "plan_b": gen.gen_plan(ch)}


def run_case(case: dict) -> dict:
    res = base_result(case)
    stmts = case["stmts"]
    try:
        un = unroll(stmts)
    except lang.RefError as r:
        res["status"] = "invalid"
        res["invalid"] = str(r)
        return res
    src_a, src_b = lang.pprogram(stmts), lang.pprogram(un)
    res["sources"] = {"loop": src_a, "unrolled": src_b}
    res["source"] = src_a
    ca = compile_case(src_a, case["options"], case["plan"])
    merge_fired(res, ca)
    cb = compile_case(src_b, case["options"], case.get("plan_b"))
    merge_fired(res, cb)
    res["events"] = [ca["events"], cb["events"]]
    front = ("semantic", "parse", "parsing", "lowering", "error")
    if not ca["ok"] or not cb["ok"]:
        bad = ca if not ca["ok"] else cb
        res["status"] = "refused"
        res["refusal"] = {"stage": bad["stage"], "error": bad["error"], "crash": bad["crash"]}
        if cb["ok"] and not ca["ok"] and ca["stage"] in front:
            res["status"] = "violation"
            res["violation"] = {"class": "loop-refused-but-unrolling-accepted",
                                "detail": {"error": ca["error"]}}
        return res
    try:
        wa, wb = World(ca["bp"]), World(cb["bp"])
        blueprint_probes(res, wa)
        excl = set(case.get("exclude") or [])
        probe(res, "stateful_body" if case.get("stateful") else "stateless_body")
        tw = Twin([wa, wb])
        if "crosstalk" in excl and (has_known_structure(wa, tw.obs[0], True, un, case["inputs"])
                                    or has_known_structure(wb, tw.obs[1], True, un, case["inputs"])):
            res["status"] = "excluded"
            res["excluded_by"] = "crosstalk"
            return res
        if "same-source-two-roles" in excl:
            from .c02 import same_source_two_roles

            if same_source_two_roles(un):
                res["status"] = "excluded"
                res["excluded_by"] = "same-source-two-roles"
                return res
        # user-placed entities: the reference unroller's placements (C09 oracle) on the loop build
        it = lang.Interp(un)
        it.run(input_inits(case), {})
        if it.places:
            geom.check_user_entities(wa, it.places, res)
            probe(res, "placing_body")
        if not it.places and not any(s[0] == "decl" and s[1] == "Signal" and s[2] not in
                                     {i["name"] for i in case["inputs"]} for s in un):
            probe(res, "zero_iterations_total")
        vals = input_inits(case)
        cell_reads = {base_group(s[2]) for s in un if s[0] == "decl" and s[3][0] == "read"}
        for si, step in enumerate([{}] + list(case["history"])):
            vals.update({k: v for k, v in step.items() if not k.startswith("__")})
            tw.set_inputs(vals)
            if case.get("stateful"):
                # free-running counters (their increments never depend on inputs): the cells are
                # compared tick by tick; everything else has no promised latency (a loop-local
                # comparison may be inlined into the entity while its unrolled, named twin is
                # not) and is compared once the stateless part is at rest
                for _t in range(12):
                    oa, ob = observe(wa, tw.obs[0], base_group), observe(wb, tw.obs[1], base_group)
                    cells = [k for k in oa if k[0] == "anchor" and k[1] in cell_reads]
                    compare_obs(oa, ob, res, {"step": si, "tick": _t, "inputs": dict(vals)},
                                "loop-differs-from-unrolling", keys=cells if _t < 11 else None,
                                first_may_expose_fewer=True)
                    wa.step(); wb.step()
                res["ticks"] += 24
                continue
            ts = tw.settle_all()
            res["ticks"] += sum(t or 0 for t in ts)
            if ts[0] is None or ts[1] is None:
                if (ts[0] is None) != (ts[1] is None):
                    raise Violation("loop-differs-from-unrolling", {"what": "settling", "step": si})
                break
            oa, ob = observe(wa, tw.obs[0], base_group), observe(wb, tw.obs[1], base_group)
            compare_obs(oa, ob, res, {"step": si, "inputs": dict(vals)}, "loop-differs-from-unrolling",
                        first_may_expose_fewer=True)
        res["sig"] = [skeleton(stmts), net_signature(wa), sorted(res["fired"])]
        if res["compared"] == 0:
            res["status"] = "trivial"
    except Violation as v:
        res["status"] = "violation"
        res["violation"] = {"class": v.cls, "detail": v.detail}
    except ModelGap as g:
        res["status"] = "gap"
        res["gap"] = str(g)
    except lang.RefError as r:
        res["status"] = "invalid"
        res["invalid"] = str(r)
    return res


TIERS = {
    "quick": {"runs": 400, "budget_s": 60, "hashseeds": 4, "shrink_budget": 48, "struct_budget": 0,
              "max_reports": 4},
    "thorough": {"runs": 12000, "budget_s": 1200, "hashseeds": 8, "shrink_budget": 300,
                 "struct_budget": 0, "max_reports": 8},
}
RULE = ("seeded programs with 1-2 loops (ranges over a box incl. negative, empty, descending and "
        "non-dividing steps, int-variable bounds, list iterators, nesting <= 3) whose bodies use the "
        "iterator in arithmetic, comparisons, signal-literal values and coordinates, place entities, "
        "declare memories and call functions; twin = reference unrolling with per-iteration fresh names; "
        "both compiled under independent fault plans and co-simulated; distinct = (program skeleton, "
        "circuit shape, fault kinds fired)")
EXPECTED_PROBES = ["stateful_body", "stateless_body", "placing_body", "zero_iterations_total"]
