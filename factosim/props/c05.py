"""C05 - set/reset latches obey set, reset, hold and the declared priority.

Workload: 1-2 latches, both argument orders x {set/reset as boolean inputs; comparisons on one
shared input (the path the compiler inlines); comparisons on different inputs; mixed} x
{overlapping, disjoint thresholds} x v in {1, other constant, signal}.  Schedule: boundary
histories walking the inputs over threshold-1 / threshold / threshold+1 and far values, one
input per step, always visiting the both-active region from ON and from OFF when reachable.
Model: 4-row state machine with the priority named first; output = state ? v_now : 0.
A step in which one input changes both set and reset and ends with neither active is relaxed
(the transient order decides, the property does not): the observed state is adopted.
"""
from __future__ import annotations

from .. import gamedata, gen, lang
from ..diagnose import crosstalk_sites
from ..rng import Chooser
from .common import (ModelGap, Obs, Violation, World, base_result, blueprint_probes,
                     compile_case, fmt_sigs, input_inits, bind_input_aliases, merge_fired, net_signature, probe, settle_bound,
                     skeleton)

PROP = "C05"
CELL_TYPES = ["signal-L", "signal-P", "signal-Q", "iron-plate", "signal-7", "crude-oil"]
IN_TYPES = ["signal-X", "signal-S", "signal-R", "signal-T", "copper-plate", "signal-A"]


def gen_case(ch: Chooser, tier: str = "quick") -> dict:
    stmts: list = []
    inputs: list[dict] = []
    thresholds: set[int] = set()
    used_types: list[str] = []

    def add_input(dom: str, init=None, type_=None) -> str:
        nm = f"i{len(inputs) + 1}"
        if type_ is None:
            cands = [t for t in IN_TYPES if t not in used_types] or IN_TYPES
            type_ = ch.pick(cands)
        used_types.append(type_)
        lo, hi = gen.DOMAINS[dom]
        v = ch.i32_biased(lo, hi) if init is None else init
        inputs.append({"name": nm, "type": type_, "init": v, "dom": dom})
        stmts.append(["decl", "Signal", nm, ["siglit", type_, ["lit", v, 10]]])
        return nm

    def cmp_on(name: str):
        thr = ch.i32_biased(-30, 100)
        thresholds.add(thr)
        return ["bin", ch.pick(lang.CMP_OPS), ["var", name], ["lit", thr, 10]]

    latches = []
    n_l = ch.weighted([(4, 1), (1, 2)])
    for li in range(n_l):
        form = ch.weighted([(4, "shared"), (3, "bools"), (3, "different"), (2, "mixed")])
        if form == "shared":
            x = add_input("small")
            s_e, r_e = cmp_on(x), cmp_on(x)
        elif form == "bools":
            s_e, r_e = ["var", add_input("bool")], ["var", add_input("bool")]
        elif form == "different":
            s_e, r_e = cmp_on(add_input("small")), cmp_on(add_input("small"))
        else:
            if ch.chance(1, 2):
                s_e, r_e = ["var", add_input("bool")], cmp_on(add_input("small"))
            else:
                s_e, r_e = cmp_on(add_input("small")), ["var", add_input("bool")]
        mt = CELL_TYPES[(ch.draw(len(CELL_TYPES)) + li) % len(CELL_TYPES)]
        m = f"l{li + 1}"
        stmts.append(["mem", m, mt])
        vk = ch.weighted([(4, "one"), (3, "const"), (3, "signal")])
        if vk == "one":
            v_e = ["lit", 1, 10]
        elif vk == "const":
            v_e = ["lit", ch.pick([2, 5, 100, 1000, -1, -7, 65536]), 10]
        else:
            vin = add_input("small", type_=mt)
            v_e = ["var", vin]
        order = ch.pick(["sr", "rs"])
        stmts.append(["latch", m, v_e, s_e, r_e, order])
        o = f"o{li + 1}"
        stmts.append(["decl", "Signal", o, ["read", m]])
        extra = []
        if ch.chance(1, 3):
            q = f"q{li + 1}"
            stmts.append(["decl", "Signal", q, ["bin", "+", ["read", m], ["lit", ch.rint(1, 9), 10]]])
            extra.append(q)
        latches.append({"mem": m, "type": mt, "reader": o, "order": order, "form": form,
                        "vkind": vk, "extra": extra})
    # boundary history: one input per step
    n_steps = ch.rint(6, 20)
    hist = []
    thr = sorted(thresholds)
    for _ in range(n_steps):
        i = ch.pick(inputs)
        lo, hi = gen.DOMAINS[i["dom"]]
        if i["dom"] == "bool":
            v = ch.draw(2)
        else:
            k = ch.draw(10)
            if thr and k < 7:
                v = ch.pick(thr) + ch.pick([-1, 0, 1])
            elif k < 9:
                v = ch.pick([-60, 60, 0, 1, -1])
            else:
                v = ch.rint(lo, hi)
            v = max(lo, min(hi, v))
        hist.append({i["name"]: v})
    return {"prop": PROP, "stmts": stmts, "inputs": inputs, "latches": latches, "history": hist,
            "options": gen.gen_options(ch), "plan": gen.gen_plan(ch)}


def run_case(case: dict) -> dict:
    res = base_result(case)
    stmts = case["stmts"]
    src = lang.pprogram(stmts)
    res["source"] = src
    comp = compile_case(src, case["options"], case["plan"])
    merge_fired(res, comp)
    res["events"] = comp["events"]
    if not comp["ok"]:
        res["status"] = "refused"
        res["refusal"] = {"stage": comp["stage"], "error": comp["error"], "crash": comp["crash"]}
        return res
    try:
        w = World(comp["bp"])
        blueprint_probes(res, w)
        obs = Obs(w)
        if "same-source-two-roles" in (case.get("exclude") or []):
            from .c02 import same_source_two_roles

            if same_source_two_roles(stmts):
                res["status"] = "excluded"
                res["excluded_by"] = "same-source-two-roles"
                return res
        if "crosstalk" in (case.get("exclude") or []):
            labels = {n: k for k, v in obs.inputs.items() for n in v}
            from ..static_trigger import crosstalk_possible

            if crosstalk_sites(w, [], labels, memory_ok=True) and crosstalk_possible(stmts, case["inputs"]):
                res["status"] = "excluded"
                res["excluded_by"] = "crosstalk"
                return res
        for e in w.ents.values():
            if "(latch)" in e.desc:
                conds = (e.cb.get("decider_conditions") or {}).get("conditions") or []
                probe(res, "latch_inlined_multi_condition" if len(conds) > 1 else "latch_single_condition")
            if "latch_multiplier" in e.desc:
                probe(res, "latch_multiplier")
            if "signal_remapper" in e.desc:
                probe(res, "latch_remapper")
        interp = lang.Interp(stmts)
        latches = case["latches"]
        excl = set(case.get("exclude") or [])
        vals = input_inits(case)
        missing = bind_input_aliases(obs, case)
        bound = settle_bound(w) + 4
        state: dict[str, bool | None] = {l["mem"]: False for l in latches}
        prev_sr: dict[str, tuple | None] = {l["mem"]: None for l in latches}
        steps = [{}] + list(case["history"])
        for si, step in enumerate(steps):
            changed = None
            for k, v in step.items():
                if k not in missing:
                    vals[k] = v
                    changed = k
            for k, v in vals.items():
                if k not in missing:
                    obs.set_input(k, v)
            t = w.settle(bound)
            if t is None:
                raise Violation("no-settle", {"bound": bound, "step": si, "inputs": dict(vals)})
            res["ticks"] += t + 1
            snap = w.snapshot()
            w.run(3)
            res["ticks"] += 3
            if w.snapshot() != snap:
                raise Violation("unstable-after-settle", {"step": si})
            interp.run(vals, {})
            where = {"step": si, "inputs": dict(vals), "changed": changed}
            for l in latches:
                wr = [x for x in interp.writes if x[0] == l["mem"]][0]
                v_now = lang.ival(wr[1])
                sv, rv, order = wr[4]
                S, R = lang.ival(sv) != 0, lang.ival(rv) != 0
                if lang.ival(sv) not in (0, 1) or lang.ival(rv) not in (0, 1):
                    raise lang.RefError("non-boolean set/reset (outside the generated class)")
                old = state[l["mem"]]
                relaxed = False
                if S and R:
                    new = order == "sr"
                    probe(res, "both_active_from_on" if old else "both_active_from_off")
                elif S:
                    new = True
                elif R:
                    new = False
                else:
                    new = old
                    p = prev_sr[l["mem"]]
                    if p is not None and p[0] != S and p[1] != R:
                        relaxed = True  # both lines dropped in one step: transient order decides
                    if si == 0:
                        new = False
                prev_sr[l["mem"]] = (S, R)
                got = obs.read_anchor(l["reader"])
                if got is None:
                    raise Violation("latch-reader-missing", {"latch": l["mem"]})
                sigs, label, _n = got
                if label and label != l["type"]:
                    raise Violation("latch-wrong-type", {"latch": l["mem"], "declared": l["type"],
                                                         "label": label})
                v = sigs.get(gamedata.sk(l["type"]), 0)
                res["compared"] += 1
                if relaxed or new is None:
                    probe(res, "race_step_relaxed")
                    if v_now != 0:
                        if v not in (0, v_now):
                            raise Violation("latch-wrong-value", {
                                "latch": l["mem"], "expected_one_of": [0, v_now], "got": v,
                                "where": where})
                        state[l["mem"]] = v == v_now
                    else:
                        state[l["mem"]] = None
                    continue
                exp = v_now if new else 0
                if v != exp:
                    raise Violation("latch-wrong-value", {
                        "latch": l["mem"], "order": order, "form": l["form"], "S": S, "R": R,
                        "previous_state": old, "expected": exp, "got": v,
                        "network": fmt_sigs(sigs), "where": where})
                state[l["mem"]] = new
                for q in l["extra"]:
                    gq = obs.read_anchor(q)
                    if gq is None:
                        continue
                    env = interp.run(vals, {l["mem"]: exp})
                    eq = env[q]
                    vq = gq[0].get(gamedata.sk(eq.type or gq[1] or l["type"]), 0)
                    res["compared"] += 1
                    if vq != eq.v:
                        raise Violation("latch-reader-wrong", {"reader": q, "expected": eq.v,
                                                               "got": vq, "where": where})
        res["sig"] = [skeleton(stmts), net_signature(w), sorted(res["fired"]), len(steps)]
    except Violation as v:
        res["status"] = "violation"
        res["violation"] = {"class": v.cls, "detail": v.detail}
    except ModelGap as g:
        res["status"] = "gap"
        res["gap"] = str(g)
    except lang.RefError as r:
        res["status"] = "invalid"
        res["invalid"] = str(r)
    return res


TIERS = {
    "quick": {"runs": 600, "budget_s": 55, "hashseeds": 4, "shrink_budget": 64, "struct_budget": 160,
              "max_reports": 4},
    "thorough": {"runs": 20000, "budget_s": 900, "hashseeds": 8, "shrink_budget": 400,
                 "struct_budget": 600, "max_reports": 8},
}
RULE = ("seeded latch programs (both argument orders; set/reset as boolean inputs, comparisons on one "
        "shared input, on different inputs, mixed; v = 1 / constant / signal) x compile fault plan x "
        "boundary history of 6-20 steps over threshold-1/threshold/threshold+1, one input per step; "
        "non-trivial = compiled and >=1 latch state compared; distinct = (program skeleton, circuit "
        "shape, fault kinds fired, history length)")
EXPECTED_PROBES = ["both_active_from_on", "both_active_from_off", "latch_inlined_multi_condition",
                   "latch_single_condition", "latch_multiplier", "latch_remapper", "race_step_relaxed"]
