"""C17 - imports are textual inclusion and the standard library meets its contracts.

Part A, import machine (stateful, real file system in a scratch directory): operations
write_file / mkdir / chdir / compile(path).  Generated import graphs: chains, diamonds, cycles,
the same file reached through two spellings (`sub/../x.facto`), files next to the importer vs the
bundled library under both documented spellings, from several working directories.
Invariants: the compile terminates (wall-bounded by the harness), every function is defined once
(no 'already defined'), the outcome and the canonical circuit do not depend on the working
directory, and the importing program equals the program with the text pasted in once.

Part B, library contracts: every function of lib/math.facto is called on typed inputs, compiled
under a fault plan and executed over boundary-biased int32 argument tuples restricted to where
the documented formula does not overflow; the settled result must equal the documented
mathematical definition."""
from __future__ import annotations

import os
import shutil
import tempfile

from .. import canon, gamedata, gen, lang, seam
from ..diagnose import crosstalk_sites
from ..rng import Chooser
from .common import (ModelGap, Obs, Violation, World, base_result, blueprint_probes, compile_case,
                     merge_fired, net_signature, probe, settle_bound)

PROP = "C17"
I32 = (-(1 << 31), (1 << 31) - 1)
from ..world import i32 as _i32  # noqa: E402

# ------------------------------------------------------------------ documented definitions
def _fdiv(a, b):
    return a // b


LIB = {
    # name: (params, reference, domain predicate)
    "abs": (["S"], lambda x: abs(x), lambda x: x > I32[0]),
    "sign": (["S"], lambda x: (x > 0) - (x < 0), lambda x: True),
    "min": (["S", "S"], lambda a, b: min(a, b), lambda a, b: True),
    "max": (["S", "S"], lambda a, b: max(a, b), lambda a, b: True),
    "clamp": (["S", "i", "i"], lambda x, lo, hi: max(lo, min(hi, x)), lambda x, lo, hi: lo <= hi),
    "lerp": (["i", "i", "S"], lambda a, b, t: a + ((b - a) * t) // 100,
             lambda a, b, t: a <= b and 0 <= t <= 100 and abs((b - a) * 100) < (1 << 31)),
    "between": (["S", "i", "i"], lambda x, lo, hi: 1 if lo <= x <= hi else 0, lambda x, lo, hi: True),
    "get_bit": (["S", "p"], lambda v, p: (v >> p) & 1, lambda v, p: True),
    "set_bit": (["S", "p"], lambda v, p: _i32(v | (1 << p)), lambda v, p: p <= 30),
    "clear_bit": (["S", "p"], lambda v, p: _i32(v & ~(1 << p)), lambda v, p: p <= 30),
    "toggle_bit": (["S", "p"], lambda v, p: _i32(v ^ (1 << p)), lambda v, p: p <= 30),
    "div_floor": (["S", "S"], lambda a, b: a // b, lambda a, b: b != 0 and not (a == I32[0] and b == -1)),
    "mod_positive": (["S", "S"], lambda a, b: a % b, lambda a, b: b > 0),
}
IMPORT_FORMS = ['import "math.facto";', 'import "lib/math.facto";']


def gen_case(ch: Chooser, tier: str = "quick") -> dict:
    if ch.chance(1, 2):
        return _gen_lib_case(ch)
    return _gen_import_case(ch)


# ------------------------------------------------------------------ part B
def _gen_lib_case(ch: Chooser) -> dict:
    fn = ch.pick(sorted(LIB))
    params, _ref, dom = LIB[fn]
    types = ["signal-A", "signal-B", "iron-plate", "signal-X"]
    inputs = []
    args = []
    ints = []
    for i, p in enumerate(params):
        if p == "S":
            nm = f"a{i}"
            inputs.append({"name": nm, "type": types[i], "init": ch.i32_biased(-100, 100), "dom": "any"})
            args.append(nm)
        elif p == "p":
            v = ch.rint(0, 31 if fn == "get_bit" else 30)   # 1 << 31 overflows the documented formula
            ints.append(v)
            args.append(str(v))
        else:
            v = ch.i32_biased(-1000, 1000)
            ints.append(v)
            args.append(str(v))
    if fn in ("clamp", "between", "lerp"):
        lo, hi = sorted(ints[:2])
        ints[0], ints[1] = lo, hi
        k = 0
        for i, p in enumerate(params):
            if p == "i":
                args[i] = str(ints[k])
                k += 1
    # argument tuples: boundary biased, inside the documented domain
    tuples = []
    sig_n = sum(1 for p in params if p == "S")
    specials = [0, 1, -1, 2, -2, 7, -7, 100, -100, I32[0], I32[1], I32[0] + 1, 65536, -65536, 50, 99, 101] + ints + [x + 1 for x in ints] + [x - 1 for x in ints]
    for _ in range(ch.rint(4, 12)):
        vals = []
        for _k in range(sig_n):
            if ch.chance(2, 3):
                vals.append(ch.pick(specials))
            else:
                vals.append(ch.rint(-1000, 1000) if ch.chance(1, 2) else ch.rint(I32[0], I32[1]))
        if fn == "lerp":
            vals = [ch.rint(0, 100)]
        tuples.append(vals)
    form = ch.draw(len(IMPORT_FORMS))
    cwd = ch.pick(["repo", "scratch", "root"])
    # the importing program's own declarations: what a library function computes must not depend
    # on the names the importer happens to use - including names the library uses for parameters
    bystanders = []
    if ch.chance(1, 2):
        pool = _library_param_names()
        taken = {i["name"] for i in inputs} | {"result"}
        for _ in range(ch.rint(1, 3)):
            nm = ch.pick(pool)
            if nm in taken:
                continue
            taken.add(nm)
            bystanders.append([nm, ch.i32_biased(-9, 60)])
    return {"prop": PROP, "part": "lib", "fn": fn, "args": args, "inputs": inputs, "ints": ints,
            "tuples": tuples, "import_form": form, "cwd": cwd, "bystanders": bystanders,
            "options": gen.gen_options(ch, allow_poles=False), "plan": gen.gen_plan(ch)}


_PARAM_NAMES: list = []


def _library_param_names() -> list:
    """Parameter names of the functions in lib/math.facto of the current tree (plus a few plain
    names), as candidates for the importer's own int declarations."""
    if not _PARAM_NAMES:
        import re

        names = {"x", "y", "n", "v"}
        funcs = set()
        try:
            with open(os.path.join(seam.REPO, "lib", "math.facto"), encoding="utf-8") as fh:
                for m in re.finditer(r"func\s+(\w+)\s*\(([^)]*)\)", fh.read()):
                    funcs.add(m.group(1))
                    for part in m.group(2).split(","):
                        part = part.strip().split()
                        if len(part) == 2:
                            names.add(part[1])
        except OSError:
            pass
        _PARAM_NAMES.extend(sorted(names - funcs))
    return _PARAM_NAMES


def _lib_source(case) -> str:
    lines = [IMPORT_FORMS[case["import_form"]]]
    for nm, v in case.get("bystanders") or []:
        lines.append(f"int {nm} = {v};")
    for i in case["inputs"]:
        lines.append(f'Signal {i["name"]} = ("{i["type"]}", {i["init"]});')
    lines.append(f'Signal result = {case["fn"]}({", ".join(case["args"])});')
    return "\n".join(lines) + "\n"


def _run_lib(case, res) -> None:
    src = _lib_source(case)
    res["source"] = src
    excl = set(case.get("exclude") or [])
    scratch = tempfile.mkdtemp(prefix="fv-c17-")
    start = os.getcwd()
    try:
        os.chdir({"repo": seam.REPO, "scratch": scratch, "root": "/"}[case["cwd"]])
        comp = compile_case(src, case["options"], case["plan"])
    finally:
        os.chdir(start)
        shutil.rmtree(scratch, ignore_errors=True)
    merge_fired(res, comp)
    res["events"] = comp["events"]
    probe(res, f"lib_{case['fn']}")
    probe(res, f"cwd_{case['cwd']}")
    if not comp["ok"]:
        if comp["stage"] in ("layout_planning", "crash"):
            res["status"] = "refused"
            res["refusal"] = {"stage": comp["stage"], "error": comp["error"], "crash": comp["crash"]}
            return
        if "import-form-cwd" in excl and case["import_form"] == 1 and case["cwd"] != "repo":
            res["status"] = "excluded"
            res["excluded_by"] = "import-form-cwd"
            return
        raise Violation("library-import-refused", {"cwd": case["cwd"], "import": IMPORT_FORMS[case["import_form"]],
                                                   "stage": comp["stage"], "error": comp["error"]})
    w = World(comp["bp"])
    blueprint_probes(res, w)
    obs = Obs(w)
    if "crosstalk" in excl:
        labels = {n: k for k, v in obs.inputs.items() for n in v}
        if crosstalk_sites(w, [], labels):
            res["status"] = "excluded"
            res["excluded_by"] = "crosstalk"
            return
    params, ref, dom = LIB[case["fn"]]
    got = obs.read_anchor("result")
    if got is None:
        raise Violation("library-result-not-exported", {"fn": case["fn"]})
    bound = settle_bound(w) + 2
    ints = list(case["ints"])
    for vals in case["tuples"]:
        full = []
        vi = ii = 0
        for p in params:
            if p == "S":
                full.append(vals[vi]); vi += 1
            else:
                full.append(ints[ii]); ii += 1
        if not dom(*full):
            probe(res, "tuple_outside_documented_domain")
            continue
        for i, v in zip(case["inputs"], vals):
            obs.set_input(i["name"], v)
        t = w.settle(bound)
        if t is None:
            raise Violation("library-no-settle", {"fn": case["fn"], "args": full})
        res["ticks"] += t + 1
        sigs, label, _n = obs.read_anchor("result")
        if label is None or label in ("bundle",):
            raise Violation("library-result-untyped", {"fn": case["fn"]})
        v = sigs.get(gamedata.sk(label), 0)
        exp = ref(*full)
        res["compared"] += 1
        if v != exp:
            raise Violation("library-contract-broken", {"fn": case["fn"], "args": full, "expected": exp,
                                                        "got": v, "network": {k[1]: x for k, x in sigs.items()}})
    res["sig"] = ["lib", case["fn"], case["args"], net_signature(w), sorted(res["fired"])]


# ------------------------------------------------------------------ part A
FUNC_BODIES = [
    "func {n}(Signal x) {{\n    return x * {k} + 1;\n}}\n",
    "func {n}(Signal x, int k) {{\n    Signal t = x + k;\n    return t * {k};\n}}\n",
    "func {n}(Signal x) {{\n    return (x > {k}) : x;\n}}\n",
]


def _gen_import_case(ch: Chooser) -> dict:
    shape = ch.weighted([(3, "chain"), (3, "diamond"), (3, "cycle"), (3, "two-spellings"), (2, "subdir"),
                         (2, "lib-both")])
    files: dict[str, str] = {}
    funcs: list[str] = []

    def mk(path: str, imports: list[str], nfun: int = 1):
        text = "".join(f'import "{i}";\n' for i in imports)
        for _ in range(nfun):
            n = f"fn{len(funcs) + 1}"
            funcs.append(n)
            text += ch.pick(FUNC_BODIES).format(n=n, k=ch.rint(2, 9))
        files[path] = text

    main_imports: list[str] = []
    if shape == "chain":
        mk("c.facto", [])
        mk("b.facto", ["c.facto"])
        mk("a.facto", ["b.facto"])
        main_imports = ["a.facto"]
    elif shape == "diamond":
        mk("base.facto", [])
        mk("left.facto", ["base.facto"])
        mk("right.facto", ["base.facto"])
        main_imports = ["left.facto", "right.facto"]
        if ch.chance(1, 2):
            main_imports.append("base.facto")
    elif shape == "cycle":
        mk("a.facto", ["b.facto"])
        mk("b.facto", ["a.facto"] if ch.chance(1, 2) else ["c.facto"])
        if "c.facto" in files["b.facto"]:
            mk("c.facto", ["a.facto"])
        main_imports = ["a.facto"]
        if ch.chance(1, 3):
            main_imports.append("b.facto")
    elif shape == "two-spellings":
        mk("common.facto", [])
        mk("sub/extra.facto", ["../common.facto"])
        main_imports = ["common.facto", "sub/extra.facto"]
        if ch.chance(1, 2):
            main_imports.reverse()
    elif shape == "subdir":
        mk("sub/helper.facto", [])
        mk("sub/mid.facto", ["helper.facto"])          # next to the importing file
        main_imports = ["sub/mid.facto"]
    else:
        main_imports = ["lib/math.facto", "math.facto"] if ch.chance(1, 2) else ["math.facto", "lib/math.facto"]
        funcs.append("abs")
    body = 'Signal a = ("signal-A", 5);\n'
    for i, f in enumerate(funcs[: ch.rint(1, 3)]):
        if f == "abs":
            body += f"Signal r{i} = abs(a);\n"
        else:
            body += f"Signal r{i} = {f}(a{', 3' if 'int k' in ''.join(files.values()).split('func ' + f)[1].split(')')[0] else ''});\n"
    main = "".join(f'import "{i}";\n' for i in main_imports) + body
    cwds = [ch.pick(["repo", "scratch", "root", "main-dir", "sub-dir"]) for _ in range(ch.rint(2, 3))]
    return {"prop": PROP, "part": "imports", "shape": shape, "files": files, "main": main,
            "main_dir": ch.pick(["", "proj", "proj/nested"]), "cwds": cwds,
            "options": {"optimize": True, "poles": None, "retries": 3},
            "plan": {"solver": {"mode": "det"}}}


def _paste(case) -> str:
    """The program with every import replaced by the file's text, each file once (first use wins)."""
    seen: set = set()
    base = case["main_dir"]

    def norm(p):
        return os.path.normpath(p)

    def expand(text: str, cur_dir: str) -> str:
        out = []
        for line in text.split("\n"):
            s = line.strip()
            if s.startswith('import "') and s.endswith('";'):
                rel = s[8:-2]
                if rel in ("math.facto", "lib/math.facto"):
                    key = "<lib>/math.facto"
                    if key in seen:
                        continue
                    seen.add(key)
                    with open(os.path.join(seam.REPO, "lib", "math.facto"), encoding="utf-8") as fh:
                        out.append(expand(fh.read(), "<lib>"))
                    continue
                path = norm(os.path.join(cur_dir, rel))
                if path in seen:
                    continue
                seen.add(path)
                rel_to_base = os.path.relpath(path, base) if base else path
                out.append(expand(case["files"][norm(rel_to_base)], os.path.dirname(path)))
            else:
                out.append(line)
        return "\n".join(out)

    return expand(case["main"], base)


def _run_imports(case, res) -> None:
    scratch = tempfile.mkdtemp(prefix="fv-c17-")
    start = os.getcwd()
    excl = set(case.get("exclude") or [])
    try:
        root = os.path.join(scratch, case["main_dir"]) if case["main_dir"] else scratch
        os.makedirs(root, exist_ok=True)
        for rel, text in case["files"].items():
            p = os.path.join(root, rel)
            os.makedirs(os.path.dirname(p), exist_ok=True)
            with open(p, "w", encoding="utf-8") as fh:
                fh.write(text)
        main_path = os.path.join(root, "main.facto")
        with open(main_path, "w", encoding="utf-8") as fh:
            fh.write(case["main"])
        os.makedirs(os.path.join(root, "sub"), exist_ok=True)
        res["sources"] = {"main": case["main"], **case["files"]}
        probe(res, f"shape_{case['shape']}")
        pasted = _paste(case)
        ref = seam.compile_source(pasted, plan=case["plan"])
        res["compiles"] += 1
        if not ref["ok"]:
            res["status"] = "invalid"
            res["invalid"] = "pasted twin refused: " + str(ref["error"])[:200]
            return
        ref_canon = canon.canonical(ref["bp"])
        outcomes = []
        for cw in case["cwds"]:
            d = {"repo": seam.REPO, "scratch": scratch, "root": "/", "main-dir": root,
                 "sub-dir": os.path.join(root, "sub")}[cw]
            os.chdir(d)
            probe(res, f"cwd_{cw}")
            comp = seam.compile_source(case["main"], plan=case["plan"], source_name=main_path)
            merge_fired(res, comp)
            where = {"cwd": cw, "shape": case["shape"], "main_dir": case["main_dir"]}
            if not comp["ok"]:
                if comp["stage"] == "layout_planning":
                    continue
                if "import-form-cwd" in excl and case["shape"] == "lib-both" and cw != "repo":
                    probe(res, "known_finding_not_judged")
                    continue
                cls = "function-defined-twice" if "already defined" in (comp["error"] or "") else "import-refused"
                raise Violation(cls, dict(where, stage=comp["stage"], error=comp["error"]))
            c = canon.canonical(comp["bp"])
            res["compared"] += 1
            if c["hash"] != ref_canon["hash"]:
                raise Violation("import-differs-from-pasted-text", dict(
                    where, entities=[c["entities"], ref_canon["entities"]],
                    networks=[c["networks"], ref_canon["networks"]]))
            outcomes.append(c["hash"])
        res["sig"] = ["imports", case["shape"], case["main_dir"], case["cwds"], seam.digest(case["files"])]
    finally:
        os.chdir(start)
        shutil.rmtree(scratch, ignore_errors=True)


def run_case(case: dict) -> dict:
    res = base_result(case)
    try:
        if case["part"] == "lib":
            _run_lib(case, res)
        else:
            _run_imports(case, res)
        if res["status"] == "ok" and res["compared"] == 0:
            res["status"] = "trivial"
    except Violation as v:
        res["status"] = "violation"
        res["violation"] = {"class": v.cls, "detail": v.detail}
    except ModelGap as g:
        res["status"] = "gap"
        res["gap"] = str(g)
    return res


TIERS = {
    "quick": {"runs": 400, "budget_s": 60, "hashseeds": 4, "shrink_budget": 0, "struct_budget": 0,
              "max_reports": 4},
    "thorough": {"runs": 10000, "budget_s": 1200, "hashseeds": 8, "shrink_budget": 0, "struct_budget": 0,
                 "max_reports": 8},
}
RULE = ("half import histories (chains, diamonds, cycles, one file under two spellings, files next to the "
        "importer in a sub-directory, the bundled library under both documented spellings; real files in a "
        "scratch tree; 2-3 working directories per history; compared with the pasted twin by canonical "
        "circuit) and half library contracts (each lib/math.facto function on typed inputs, 4-12 "
        "boundary-biased argument tuples inside the documented domain, compiled under a fault plan and "
        "executed in the circuit model); distinct = (shape or function, arguments, circuit shape, cwds)")
EXPECTED_PROBES = ["shape_chain", "shape_diamond", "shape_cycle", "shape_two-spellings", "shape_subdir",
                   "shape_lib-both", "lib_abs", "lib_clamp", "lib_div_floor", "lib_mod_positive",
                   "cwd_repo", "cwd_scratch", "cwd_root"]
REAL = ["preprocessor on a real scratch file system", "os.getcwd / chdir", "bundled lib/math.facto",
        "the whole compiler", "CP-SAT (deterministic modes)"]
