"""C06 - entities are driven by exactly the condition the program assigns.

Workload: circuit-controllable entities at constant tiles with `e.enable = expr` in inlinable
forms (`x > c`, `any(b) < c`, `all(b) > c`) and non-inlinable ones, several entities sharing a
source, chests / tanks read through `.output` and reused in 1-3 merges (balanced-loader shapes).
Schedule: input values AND container contents change over the steps (containers are
environment-driven emitters on buses shared with computed signals).
Oracle: truth of the placed entity's circuit condition on the networks really wired to it ==
(expr_ref > 0), every step."""
from __future__ import annotations

from .. import gamedata, gen, lang
from ..diagnose import bundle_crosstalk_sites, crosstalk_sites
from ..rng import Chooser
from .common import (ModelGap, Obs, Violation, World, base_result, bind_input_aliases,
                     blueprint_probes, compile_case, input_inits, merge_fired, net_signature,
                     probe, settle_bound, skeleton)
from .c03 import _entity_at

PROP = "C06"
CTRL = ["small-lamp", "small-lamp", "inserter", "fast-inserter", "transport-belt", "pump",
        "power-switch", "train-stop"]
ITEMS = ["iron-plate", "copper-plate", "coal", "steel-plate"]


def _gen_lamps(ch: Chooser):
    feat = gen.ScalarGen.swarm(ch)
    g = gen.ScalarGen(ch, feat)
    c = g.c
    g.program(ch.rint(1, 3), ch.rint(0, 4), max_depth=ch.rint(0, 2))
    from .geom import Occupancy

    occ = Occupancy()
    n = ch.rint(1, 5)
    containers = []
    bundles = []
    if ch.chance(1, 2):
        proto = ch.pick(["steel-chest", "iron-chest", "storage-tank"])
        x, y = ch.rint(-8, 8), ch.rint(4, 9)
        occ.take(proto, x, y)
        c.stmts.append(["place", "box1", proto, ["lit", x, 10], ["lit", y, 10], None])
        containers.append({"name": "box1", "proto": proto, "x": x, "y": y})
        c.stmts.append(["decl", "Bundle", "cont1", ["eout", "box1"]])
        bundles.append("cont1")
    if ch.chance(1, 3):
        elems = [["var", i["name"]] for i in c.inputs[:2]]
        types = {i["type"] for i in c.inputs[:2]}
        if len(types) == len(elems):
            c.stmts.append(["decl", "Bundle", "bl1", ["blit", elems]])
            bundles.append("bl1")
    for k in range(n):
        proto = ch.pick(CTRL)
        for _t in range(30):
            x, y = ch.rint(-10, 14), ch.rint(-9, 2)
            if occ.free(proto, x, y):
                break
        else:
            continue
        occ.take(proto, x, y)
        name = f"e{k + 1}"
        c.stmts.append(["place", name, proto, ["lit", x, 10], ["lit", y, 10], None])
        form = ch.weighted([(4, "inline"), (2, "mirror"), (2, "named"), (2, "expr"), (3, "sel"),
                            (3 if bundles else 0, "anyall"), (1 if bundles else 0, "bsel")])
        thr = ch.i32_biased(-30, 30)
        c.thresholds.add(thr)
        if form == "inline":
            e = ["bin", ch.pick(lang.CMP_OPS), g.sig_leaf(), ["lit", thr, 10]]
        elif form == "mirror":
            # literal side on the LEFT, written as a typed signal literal (alone or in constant
            # arithmetic that folds), computed signal on the right: the placed comparison is
            # mirrored before it is inlined into the entity
            lit_ = ["siglit", ch.pick(gen.VIRTUALS), ["lit", ch.rint(-20, 40), 10]]
            if ch.chance(2, 3):
                lit_ = ["bin", ch.pick(["+", "-", "*"]), lit_, ["lit", ch.rint(1, 3), 10]]
            rhs = g.sig_leaf() if ch.chance(1, 3) else ["bin", ch.pick(["*", "+"]), g.sig_leaf(), ["lit", ch.rint(2, 4), 10]]
            e = ["bin", ch.pick(lang.CMP_OPS), lit_, rhs]
        elif form == "named":
            nm = c.fresh("c")
            c.stmts.append(["decl", "Signal", nm, ["bin", ch.pick(lang.CMP_OPS), g.sig_leaf(), ["lit", thr, 10]]])
            e = ["var", nm]
            if ch.chance(1, 3):   # the comparison is used elsewhere too
                c.stmts.append(["decl", "Signal", c.fresh("u"), ["bin", "+", ["var", nm], ["lit", 1, 10]]])
        elif form == "sel":
            # conditional value as enable: positive, negative and zero constants, or a signal
            cond = ["bin", ch.pick(lang.CMP_OPS), g.sig_leaf(), ["lit", thr, 10]]
            val = ["lit", ch.pick([-1, -7, 1, 5, 0, 100]), 10] if ch.chance(2, 3) else g.sig_leaf()
            e = ["sel", cond, val]
            if ch.chance(1, 3):
                nm = c.fresh("c")
                c.stmts.append(["decl", "Signal", nm, e])
                e = ["var", nm]
        elif form == "expr":
            e = g.expr(ch.rint(0, 2))
        elif form == "anyall":
            e = ["bin", ch.pick(lang.CMP_OPS), [ch.pick(["any", "all"]), ["var", ch.pick(bundles)]],
                 ["lit", thr, 10]]
        else:
            b = ch.pick(bundles)
            t = ch.pick(ITEMS) if b.startswith("cont") else ch.pick(sorted({i["type"] for i in c.inputs[:2]}))
            e = ["bin", ch.pick(lang.CMP_OPS), ["bsel", ["var", b], t], ["lit", thr, 10]]
        c.stmts.append(["enable", name, e])
    return c.stmts, c.inputs, containers, c.thresholds


def gen_case(ch: Chooser, tier: str = "quick") -> dict:
    for _attempt in range(30):
        if ch.chance(1, 8):   # the balanced-loader shape (always the known finding on the pinned tree)
            stmts, n = gen.loader_program(ch)
            inputs: list = []
            containers = []
            for s in stmts:
                if s[0] == "place" and "chest" in s[2]:
                    containers.append({"name": s[1], "proto": s[2], "x": s[3][1], "y": s[4][1]})
            thresholds: set = {0}
            family = "loader"
        else:
            stmts, inputs, containers, thresholds = _gen_lamps(ch)
            family = "lamps"
        try:
            it = lang.Interp(stmts)
            it.run({i["name"]: i["init"] for i in inputs}, {}, {})
        except lang.RefError:
            continue
        if not it.enables:
            continue
        break
    else:
        raise RuntimeError("C06 generator failed")
    # history: input changes and container contents
    hist = []
    for _ in range(ch.rint(1, 7)):
        step: dict = {}
        if inputs and ch.chance(2, 3):
            step.update(gen.gen_history(ch, inputs, thresholds, 1)[0])
        for cont in containers:
            if ch.chance(1, 2):
                if cont["proto"] == "storage-tank":
                    content = {"water": ch.rint(0, 3000)} if ch.chance(3, 4) else {}
                else:
                    content = {t: ch.pick([0, 1, 2, 5, 50, 100, 4800]) for t in ITEMS if ch.chance(1, 2)}
                step["__emit__" + cont["name"]] = content
        hist.append(step)
    return {"prop": PROP, "stmts": stmts, "inputs": inputs, "containers": containers,
            "history": hist, "family": family,
            "options": gen.gen_options(ch), "plan": gen.gen_plan(ch)}


def _const_enable(stmts, inputs) -> bool:
    """Static trigger: an enable expression that depends on no input, memory or entity output."""
    dyn = {i["name"] for i in inputs}
    for s in stmts:
        if s[0] == "decl":
            deps = set(gen.referenced_names([s]))
            if deps & dyn or s[3][0] in ("eout", "read") or "eout" in str(s[3]):
                dyn.add(s[2])
    for s in stmts:
        if s[0] == "enable":
            deps = set(gen.referenced_names([["decl", "Signal", "_", s[2]]]))
            if not (deps & dyn) and "eout" not in str(s[2]) and s[2][0] != "lit":
                return True
    return False


def _output_in_several_merges(stmts) -> bool:
    """Static trigger: one entity's .output is a member of two or more bundle literals."""
    cnt: dict = {}
    for s in stmts:
        if s[0] == "decl" and s[3][0] == "blit":
            for x in s[3][1]:
                if x[0] == "eout":
                    cnt[x[1]] = cnt.get(x[1], 0) + 1
    return any(v >= 2 for v in cnt.values())


def known_crosstalk(w, obs, stmts, cont_ents, anchors: bool = False) -> bool:
    """The known shared-network structure (named or bundle form) inside ONE program's build."""
    from .c02 import static_types

    # contents that may appear: every item / fluid the schedule uses
    for e in cont_ents:
        w.set_emit(e.num, {gamedata.sk(t): 1 for t in ITEMS + ["water"]})
    try:
        labels = {n: k for k, v in obs.inputs.items() for n in v}
        sites = crosstalk_sites(w, [], labels)
        btypes, _r = static_types(stmts)
        cont_types = set(gamedata.sk(t) for t in ITEMS + ["water"])
        # member types per bundle value: its static members, plus anything a container may hold if
        # the bundle (transitively) contains an entity output
        decls = {s[2]: s[3] for s in stmts if s[0] == "decl"}
        from_container: dict = {}

        def holds_output(e, depth=0) -> bool:
            if not isinstance(e, list) or not e or depth > 12:
                return False
            if e[0] == "eout":
                return True
            if e[0] == "var" and e[1] in decls:
                if e[1] not in from_container:
                    from_container[e[1]] = False
                    from_container[e[1]] = holds_output(decls[e[1]], depth + 1)
                return from_container[e[1]]
            return any(holds_output(x, depth + 1) for x in e[1:] if isinstance(x, list)) or any(
                holds_output(y, depth + 1) for x in e[1:] if isinstance(x, list) and x and isinstance(x[0], list) for y in x)

        has_container = any("eout" in str(s) for s in stmts)
        allowed = []
        for bn, ts in btypes.items():
            own = set(gamedata.sk(t) for t in ts)
            allowed.append(own | cont_types if holds_output(["var", bn]) else own)
        if has_container:
            allowed.append(cont_types)
        allowed = allowed or [set()]
        per_entity = None
        if anchors:
            # twin checks also compare bundle anchors: an anchor of a bundle name must only see
            # that bundle's own member types
            per_entity = {}
            everything = set().union(*allowed) if allowed else set()
            for nm, lst in obs.anchors.items():
                if nm in btypes:
                    ts = set(gamedata.sk(t) for t in btypes[nm]) if btypes[nm] else (cont_types if has_container else everything)
                    for num, _t in lst:
                        per_entity[num] = ts
        return bool(sites or bundle_crosstalk_sites(w, allowed, per_entity, anchors=anchors))
    finally:
        for e in cont_ents:
            w.set_emit(e.num, {})


def run_case(case: dict) -> dict:
    res = base_result(case)
    stmts = case["stmts"]
    src = lang.pprogram(stmts)
    res["source"] = src
    comp = compile_case(src, case["options"], case["plan"])
    merge_fired(res, comp)
    res["events"] = comp["events"]
    if not comp["ok"]:
        res["status"] = "refused"
        res["refusal"] = {"stage": comp["stage"], "error": comp["error"], "crash": comp["crash"]}
        return res
    try:
        w = World(comp["bp"])
        blueprint_probes(res, w)
        obs = Obs(w)
        excl = set(case.get("exclude") or [])
        probe(res, "family_" + case.get("family", "?"))
        if "output-in-several-merges" in excl and _output_in_several_merges(stmts):
            res["status"] = "excluded"
            res["excluded_by"] = "output-in-several-merges"
            return res
        interp = lang.Interp(stmts)
        vals = input_inits(case)
        missing = bind_input_aliases(obs, case)
        # containers: find the placed entity and give it empty contents to start with
        cont_ent = {}
        for c in case["containers"]:
            e = _entity_at(w, c["proto"], (c["x"], c["y"]))
            if e is None:
                raise Violation("container-missing", {"container": c})
            cont_ent[c["name"]] = e
        contents = {c["name"]: {} for c in case["containers"]}
        # reference run once to learn entity uids (deterministic order of places)
        interp.run(vals, {}, {})
        uid_of = {}
        place_names = [s[1] for s in stmts if s[0] == "place"]
        for nm, ref in zip(place_names, interp.places):
            uid_of[nm] = ref.uid
        ent_of_uid = {}
        for ref in interp.places:
            e = _entity_at(w, ref.proto, (ref.x, ref.y))
            if e is not None:
                ent_of_uid[ref.uid] = e
        if "same-source-two-roles" in excl:
            from .c02 import same_source_two_roles

            if same_source_two_roles(stmts):
                res["status"] = "excluded"
                res["excluded_by"] = "same-source-two-roles"
                return res
        if "crosstalk" in excl and known_crosstalk(w, obs, stmts, [cont_ent[c["name"]] for c in case["containers"]]):
            from ..static_trigger import crosstalk_possible

            if crosstalk_possible(stmts, case["inputs"]):
                res["status"] = "excluded"
                res["excluded_by"] = "crosstalk"
                return res
            probe(res, "crosstalk_structure_without_static_trigger")
        bound = settle_bound(w)
        steps = [{}] + list(case["history"])
        for si, step in enumerate(steps):
            for k, v in step.items():
                if k.startswith("__emit__"):
                    contents[k[len("__emit__"):]] = dict(v)
                elif k not in missing:
                    vals[k] = v
            for k, v in vals.items():
                if k not in missing:
                    obs.set_input(k, v)
            emits = {}
            for nm, cont in contents.items():
                w.set_emit(cont_ent[nm].num, {gamedata.sk(t): x for t, x in cont.items()})
                emits[uid_of[nm]] = dict(cont)
            t = w.settle(bound)
            if t is None:
                raise Violation("no-settle", {"bound": bound, "step": si, "inputs": dict(vals)})
            res["ticks"] += t + 1
            interp.run(vals, {}, emits)
            where = {"step": si, "inputs": dict(vals), "contents": contents}
            for uid, val in interp.enables:
                e = ent_of_uid.get(uid)
                if e is None:
                    raise Violation("controlled-entity-missing", {"uid": uid, "where": where})
                got = w.condition_of(e.num)
                if got is None:
                    if isinstance(val, int):
                        # `enable = <int constant>` is expressed by the circuit_enabled flag
                        probe(res, "constant_enable_flag")
                        continue
                    raise Violation("entity-condition-missing", {
                        "entity": [e.name, e.x, e.y], "control_behavior": e.cb, "where": where})
                exp = lang.ival(val) > 0
                res["compared"] += 1
                if got != exp:
                    r, g = w.inputs_of(e)
                    raise Violation("entity-condition-wrong", {
                        "entity": [e.name, e.x, e.y], "condition": e.cb.get("circuit_condition"),
                        "expected_enabled": exp, "expr_value": lang.ival(val), "got_enabled": got,
                        "red": {k[1]: v for k, v in r.items()}, "green": {k[1]: v for k, v in g.items()},
                        "where": where})
                cc = e.cb.get("circuit_condition") or {}
                fs = (cc.get("first_signal") or {}).get("name")
                if fs in ("signal-anything", "signal-everything"):
                    probe(res, "inlined_any_all_condition")
                elif cc.get("comparator") not in (">", None) or cc.get("constant", 0) != 0:
                    probe(res, "inlined_comparison")
        res["sig"] = [skeleton(stmts), net_signature(w), sorted(res["fired"]), len(steps)]
        if res["compared"] == 0:
            res["status"] = "trivial"
    except Violation as v:
        res["status"] = "violation"
        res["violation"] = {"class": v.cls, "detail": v.detail}
    except ModelGap as g:
        res["status"] = "gap"
        res["gap"] = str(g)
    except lang.RefError as r:
        res["status"] = "invalid"
        res["invalid"] = str(r)
    return res


TIERS = {
    "quick": {"runs": 600, "budget_s": 55, "hashseeds": 4, "shrink_budget": 64, "struct_budget": 160,
              "max_reports": 4},
    "thorough": {"runs": 25000, "budget_s": 900, "hashseeds": 8, "shrink_budget": 400,
                 "struct_budget": 600, "max_reports": 8},
}
RULE = ("seeded programs placing circuit-controllable entities whose enable is an inlinable comparison, a "
        "named comparison (also used elsewhere), an arbitrary expression, any()/all() of a bundle or a "
        "selection from a container's .output; balanced-loader shapes reusing .output in several merges "
        "x compile fault plan x history of 1-7 steps changing inputs and container contents; non-trivial "
        "= compiled and >=1 entity condition compared; distinct = (program skeleton, circuit shape, fault "
        "kinds fired, history length)")
EXPECTED_PROBES = ["inlined_comparison", "inlined_any_all_condition", "family_loader", "family_lamps"]
