"""C01 - scalar expressions compute what the source says, for every input.

Engine: compile under a fault plan -> load into the world -> drive the declared inputs through
a history of valuations -> after each step the circuit must settle within the bound and every
exported name must read, on its anchor's network, the value (and type where the language fixes
it) the reference interpreter computes.  The same valuation is revisited by a different path
(history independence).
"""
from __future__ import annotations

from .. import gamedata, gen, lang
from ..rng import Chooser
from .common import (ModelGap, Obs, Violation, World, base_result, blueprint_probes,
                     compile_case, fmt_sigs, input_inits, bind_input_aliases, merge_fired, net_signature, probe, settle_bound,
                     skeleton)

from ..diagnose import crosstalk_sites, multi_cond_both_colour_sites

PROP = "C01"
WILD = ("signal-each", "signal-anything", "signal-everything")


def gen_case(ch: Chooser, tier: str = "quick") -> dict:
    feat = gen.ScalarGen.swarm(ch)
    for _attempt in range(30):
        g = gen.ScalarGen(ch, feat)
        n_in = ch.rint(1, 5)
        n_st = ch.rint(1, 12) if ch.chance(2, 3) else ch.rint(1, 4)
        stmts = g.program(n_in, n_st, max_depth=ch.rint(1, 3))
        inputs = g.c.inputs
        try:
            lang.Interp(stmts).run({i["name"]: i["init"] for i in inputs})
        except lang.RefError:
            continue
        break
    else:
        stmts = [["decl", "Signal", "i1", ["siglit", "signal-A", ["lit", 1, 10]]],
                 ["decl", "Signal", "s2", ["bin", "+", ["var", "i1"], ["lit", 1, 10]]]]
        inputs = [{"name": "i1", "type": "signal-A", "init": 1, "dom": "small"}]
        g = None
    n_steps = ch.rint(1, 8)
    hist = gen.gen_history(ch, inputs, g.c.thresholds if g else (), n_steps)
    # revisit an earlier valuation at the end (history independence)
    if len(hist) >= 2 and ch.chance(1, 2):
        hist.append({"__revisit__": ch.draw(len(hist) - 1)})
    return {
        "prop": PROP,
        "stmts": stmts,
        "inputs": inputs,
        "history": hist,
        "options": gen.gen_options(ch),
        "plan": gen.gen_plan(ch),
    }


def merge_groups(stmts, inputs) -> list[set]:
    """Groups of same-typed declared inputs the program adds with `+` (intended wire sums)."""
    types = {i["name"]: i["type"] for i in inputs}
    groups: list[set] = []
    refs = gen.referenced_names(stmts)

    def leaves(e, acc):
        if e[0] == "bin" and e[1] == "+":
            leaves(e[2], acc)
            leaves(e[3], acc)
        else:
            acc.append(e)

    def walk(e):
        if not isinstance(e, list) or not e:
            return
        if e[0] == "bin" and e[1] == "+":
            acc: list = []
            leaves(e, acc)
            names = [x[1] for x in acc if x[0] == "var" and x[1] in types and refs.get(x[1]) == 1]
            by_type: dict = {}
            for n in names:
                by_type.setdefault(types[n], set()).add(n)
            for g in by_type.values():
                if len(g) >= 2:
                    groups.append(g)
            for x in acc:
                walk(x)
            return
        for x in e[1:]:
            if isinstance(x, list):
                walk(x)

    for s in stmts:
        if s[0] == "decl":
            walk(s[3])
    return groups


def exported(stmts) -> list[str]:
    refs = gen.referenced_names(stmts)
    out = []
    for s in stmts:
        if s[0] == "decl" and s[1] in ("Signal", "Bundle") and not refs.get(s[2]):
            out.append(s[2])
    return out


def anchorless_allowed(stmts, inputs, optimize: bool) -> set:
    """Names that may legitimately have no anchor of their own."""
    ok = set()
    dyn = {i["name"] for i in inputs}
    seen_exprs: dict[str, str] = {}
    # sub-expressions of every declaration (a named value that CSE merges into a node another
    # statement consumes is not exported under its own name)
    subs: dict[str, set] = {}

    # `cond : value` with a condition made of constants only is decided at compile time: the name is
    # then the value itself (an alias) or a constant, like a name declared that way directly
    try:
        it_ = lang.Interp(stmts)
        env_ = it_.run({i["name"]: i["init"] for i in inputs}, {})
    except lang.RefError:
        it_, env_ = None, {}

    def canon(e):
        """e without projections onto the type the value already has (no combinator, an alias)."""
        if not isinstance(e, list) or not e or not isinstance(e[0], str):
            return e
        e2 = [e[0]] + [canon(x) if isinstance(x, list) else x for x in e[1:]]
        if e2[0] == "projt" and it_ is not None:
            # `x | name.type` is `x | "T"` with T the type of name
            src = env_.get(e[2])
            if isinstance(src, lang.Sig) and src.type:
                e2 = ["proj", e2[1], src.type]
                e = ["proj", e[1], src.type]
        if e2[0] == "proj" and it_ is not None:
            try:
                v = it_.ev(e[1], env_)
                if isinstance(v, lang.Sig) and v.type == e[2]:
                    return e2[1]
            except Exception:
                pass
        return e2

    def collect(e, acc):
        if isinstance(e, list) and e and isinstance(e[0], str):
            if e[0] in ("bin", "neg", "not", "proj", "projt", "sel"):
                acc.add(lang.pexpr(canon(e)))
            for x in e[1:]:
                if isinstance(x, list):
                    collect(x, acc)

    for s0 in stmts:
        if s0[0] == "decl" and s0[1] in ("Signal", "Bundle"):
            acc: set = set()
            for x in s0[3][1:]:
                if isinstance(x, list):
                    collect(x, acc)
            subs[s0[2]] = acc
    def eff(e) -> set:
        """Run-time names e really depends on once selections with constant conditions are decided."""
        if not isinstance(e, list) or not e:
            return set()
        if e[0] == "var":
            return {e[1]} & dyn
        if e[0] in ("projt", "siglitt"):
            # only the TYPE of the named signal is used
            return eff(e[1]) if e[0] == "projt" else eff(e[2])
        if e[0] == "sel":
            cd = eff(e[1])
            if not cd and it_ is not None:
                try:
                    truth = lang.ival(it_.ev(e[1], env_))
                except Exception:
                    return cd | eff(e[2])
                return eff(e[2]) if truth else set()
            return cd | eff(e[2])
        out: set = set()
        for x in e[1:]:
            if isinstance(x, list):
                out |= eff(x)
        return out

    def decided_alias(e) -> bool:
        if e[0] == "var":
            return True
        if e[0] == "sel" and not eff(e[1]) and it_ is not None:
            try:
                # a selection decided true IS its value expression: the name adds no combinator of
                # its own (whether the value's node is labelled with it is C20's business)
                return bool(lang.ival(it_.ev(e[1], env_)))
            except Exception:
                return False
        return False

    for s in stmts:
        if s[0] != "decl" or s[1] not in ("Signal", "Bundle"):
            continue
        name, ex = s[2], s[3]
        if s[1] == "Bundle":
            deps = set(gen.referenced_names([["decl", "Signal", "_", ex]])) & dyn
        else:
            deps = eff(ex)
        if not deps:
            ok.add(name)          # constant expression: folded into a constant combinator
        else:
            dyn.add(name)
            if ex[0] == "sel" and decided_alias(ex):
                ok.add(name)      # decided selection: an alias of its value
        key = lang.pexpr(canon(ex))
        if optimize and key in seen_exprs:
            ok.add(name)          # CSE duplicate of an earlier declaration
        if optimize and any(key in v for n2, v in subs.items() if n2 != name):
            ok.add(name)          # CSE duplicate of a sub-expression another statement consumes
        seen_exprs.setdefault(key, name)
    return ok


def check_outputs(obs: Obs, env: dict, outs: list[str], stmts_by_name: dict, res: dict, where,
                  noanchor_ok=frozenset()):
    for name in outs:
        exp = env.get(name)
        if not isinstance(exp, lang.Sig):
            continue
        got = obs.read_anchor(name)
        ex = stmts_by_name[name]
        if got is None:
            # Only a result that really needs a combinator of its own must have an anchor:
            # constants carry their own label (C20's business, not claimed), bare aliases and
            # duplicates merged by common-subexpression elimination share another name's anchor.
            prod = [obs.w.ents[n] for n in obs.by_name.get(name, [])]
            consts = [p for p in prod if p.kind == "const"]
            if consts and name not in noanchor_ok and ex[0] not in ("siglit", "siglitt", "lit", "var"):
                # The compiler turned a name that depends on inputs into a constant combinator.
                # A constant is only right if it holds the value the expression has NOW (a value
                # frozen at its initial inputs is exactly what this catches once an input moves).
                held = sum(v for c_ in consts[:1] for v in (c_.const or {}).values())
                res["compared"] += 1
                if len(consts[0].const or {}) > 1 or held != exp.v:
                    raise Violation("wrong-value", {"name": name, "type": exp.type, "expected": exp.v,
                                                    "got": held, "network": "constant combinator",
                                                    "where": where})
                probe(res, "unanchored_constant_checked_by_value")
                continue
            if (ex[0] in ("siglit", "siglitt", "lit", "var")
                    or consts
                    or name in noanchor_ok):
                probe(res, "unanchored_constant_alias_or_cse_duplicate")
                continue
            raise Violation("output-missing", {"name": name, "where": where})
        sigs, label_type, n_anchors = got
        if n_anchors != 1:
            raise Violation("duplicate-anchor", {"name": name, "count": n_anchors})
        t = exp.type
        if t is None:
            t = label_type
            if t == "bundle" or t in WILD:
                continue   # a bare selection shares the bundle's anchor; nothing names its type
            if t is None or t in WILD or t == "signal-W":
                raise Violation("bad-output-type", {"name": name, "label_type": label_type})
        elif label_type is not None and label_type != t and label_type not in ("bundle",) + WILD:
            raise Violation(
                "wrong-signal-type",
                {"name": name, "expected_type": t, "label_type": label_type,
                 "network": fmt_sigs(sigs), "where": where},
            )
        v = sigs.get(gamedata.sk(t), 0)
        res["compared"] += 1
        if v != exp.v:
            raise Violation(
                "wrong-value",
                {"name": name, "type": t, "expected": exp.v, "got": v,
                 "network": fmt_sigs(sigs), "where": where},
            )
        if len(sigs) > (1 if v else 0):
            probe(res, "extra_signals_on_anchor_network")


def run_case(case: dict) -> dict:
    res = base_result(case)
    stmts = case["stmts"]
    src = lang.pprogram(stmts)
    res["source"] = src
    comp = compile_case(src, case["options"], case["plan"])
    merge_fired(res, comp)
    res["events"] = comp["events"]
    if not comp["ok"]:
        res["status"] = "refused"
        res["refusal"] = {"stage": comp["stage"], "error": comp["error"], "crash": comp["crash"]}
        return res
    try:
        w = World(comp["bp"])
        blueprint_probes(res, w)
        obs = Obs(w)
        interp = lang.Interp(stmts)
        outs = exported(stmts)
        by_name = {s[2]: s[3] for s in stmts if s[0] == "decl"}
        vals = input_inits(case)
        missing = bind_input_aliases(obs, case)
        if missing:
            probe(res, "input_without_combinator", len(missing))
        if "same-source-two-roles" in (case.get("exclude") or []):
            from .c02 import same_source_two_roles

            if same_source_two_roles(stmts):
                res["status"] = "excluded"
                res["excluded_by"] = "same-source-two-roles"
                return res
        sites = crosstalk_sites(w, merge_groups(stmts, case["inputs"]),
                                {n: k for k, v in obs.inputs.items() for n in v})
        if sites:
            probe(res, "crosstalk_site_present")
            if "crosstalk" in (case.get("exclude") or []):
                from ..static_trigger import crosstalk_possible

                if crosstalk_possible(stmts, case["inputs"]):
                    res["status"] = "excluded"
                    res["excluded_by"] = "crosstalk"
                    return res
                # the structure without a program shape that explains it is judged
                probe(res, "crosstalk_structure_without_static_trigger")
        noanchor_ok = anchorless_allowed(stmts, case["inputs"], case["options"].get("optimize", True))
        bound = settle_bound(w)
        seen: list[dict] = []
        steps = [{}] + list(case["history"])
        for si, step in enumerate(steps):
            if "__revisit__" in step:
                step = dict(seen[step["__revisit__"] % len(seen)])
                probe(res, "revisit")
            for k, v in step.items():
                if k in missing:
                    continue
                vals[k] = v
            for k, v in vals.items():
                if k not in missing:
                    obs.set_input(k, v)
            seen.append(dict(vals))
            t = w.settle(bound)
            if t is None:
                raise Violation("no-settle", {"bound": bound, "step": si, "inputs": dict(vals)})
            res["ticks"] += t + 1
            env = interp.run(vals)
            check_outputs(obs, env, outs, by_name, res, {"step": si, "inputs": dict(vals)},
                          noanchor_ok)
        res["sig"] = [skeleton(stmts), net_signature(w), sorted(res["fired"]), len(steps)]
        if res["compared"] == 0:
            res["status"] = "trivial"
    except Violation as v:
        res["status"] = "violation"
        res["violation"] = {"class": v.cls, "detail": v.detail}
    except ModelGap as g:
        res["status"] = "gap"
        res["gap"] = str(g)
    except lang.RefError as r:
        res["status"] = "invalid"
        res["invalid"] = str(r)
    return res


TIERS = {
    "quick": {"runs": 700, "budget_s": 55, "hashseeds": 4, "shrink_budget": 64, "max_reports": 4},
    "thorough": {"runs": 25000, "budget_s": 900, "hashseeds": 8, "shrink_budget": 400,
                 "max_reports": 8},
}
RULE = ("seeded stateless scalar programs (1-5 typed inputs, 1-12 declarations over all documented "
        "operators) x compile fault plan x input history of 1-8 valuations; a run is non-trivial if "
        "it compiled, executed >=1 combinator and compared >=1 exported value; distinct = distinct "
        "(program skeleton, circuit shape, fault kinds fired, history length)")
EXPECTED_PROBES = ["relay_or_pole_present", "multi_condition_decider", "network_selection_used",
                   "revisit"]
