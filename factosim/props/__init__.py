"""One module per property: gen_case(chooser, tier) -> case dict; run_case(case) -> result dict."""
