"""C04 - self-referential writes iterate the written function exactly (tick-exact).

Workload: `m.write(f(m.read()))` with f a chain of 1..6 arithmetic steps over the cell,
constants and held inputs, written nested, through named intermediates, or with a final
decider / projection step (keeps the two-gate cell); optimisation on and off; 1-3 readers.
Run: inputs constant, free-running from the all-zero (paste) state, stepped tick by tick.
Oracle: there is one L >= 1 with value(t+L) = f_ref(value(t)) for every tick t after the
power-up transient of the input paths (bounded by the blueprint's combinator count), observed on
the network of the cell's directly exported read; computed readers follow with a fixed delay.
"""
from __future__ import annotations

from .. import gamedata, gen, lang
from ..diagnose import crosstalk_sites
from ..rng import Chooser
from .common import (ModelGap, Obs, Violation, World, base_result, blueprint_probes,
                     compile_case, merge_fired, net_signature, probe, settle_bound, skeleton)

PROP = "C04"
CELL_TYPES = ["signal-M", "signal-N", "signal-C", "iron-plate", "signal-5", "water"]


_retyped = [False]


def _step(ch: Chooser, prev, inputs: list[str]):
    op = ch.weighted([(5, "+"), (2, "-"), (2, "*"), (3, "%"), (1, "/"), (1, "XOR"), (1, "AND"),
                      (1, "OR"), (1, "<<"), (1, ">>")])
    if op in ("<<", ">>"):
        b = ["lit", ch.rint(0, 4), 10]
    elif op in ("%", "/"):
        b = ["lit", ch.pick([2, 3, 7, 10, 17, 60, 100, 1000, -7]), 10]
    elif inputs and ch.chance(1, 3):
        b = ["var", ch.pick(inputs)]
    else:
        b = ["lit", ch.i32_biased(-20, 20) or 1, 10]
    if op in ("+", "-", "*", "XOR", "AND", "OR") and ch.chance(1, 4):
        if b[0] == "var":
            _retyped[0] = True            # the result takes the input's type: project back later
        return ["bin", op, b, prev]       # the cell (or the chain so far) as the RIGHT operand
    return ["bin", op, prev, b]


def gen_case(ch: Chooser, tier: str = "quick") -> dict:
    stmts: list = []
    inputs: list[dict] = []
    n_in = ch.rint(0, 2)
    names = []
    for i in range(n_in):
        t = ch.pick(["signal-A", "signal-B", "copper-plate", "signal-X"])
        v = ch.i32_biased(-30, 30)
        nm = f"i{i + 1}"
        inputs.append({"name": nm, "type": t, "init": v, "dom": "small"})
        stmts.append(["decl", "Signal", nm, ["siglit", t, ["lit", v, 10]]])
        names.append(nm)
    cells = []
    n_cells = ch.weighted([(4, 1), (1, 2)])
    uid = 0
    for ci in range(n_cells):
        mt = CELL_TYPES[(ch.draw(len(CELL_TYPES)) + ci) % len(CELL_TYPES)]
        m = f"m{ci + 1}"
        stmts.append(["mem", m, mt])
        k = ch.rint(1, 6) if ch.chance(1, 2) else ch.rint(1, 2)
        form = ch.weighted([(4, "nested"), (3, "named"), (1, "proj"), (1, "sel")])
        early = []
        prev = ["read", m]
        order = ch.weighted([(3, "after"), (2, "before"), (1, "shared")])
        if order == "shared":
            # one variable holding the read, used by the write and by readers
            uid += 1
            vname = f"v{uid}"
            stmts.append(["decl", "Signal", vname, ["read", m]])
            prev = ["var", vname]
        prev0 = prev
        if order in ("before", "shared"):
            for _ in range(ch.rint(1, 2)):
                uid += 1
                q = f"q{uid}"
                kq = ch.i32_biased(-9, 9)
                stmts.append(["decl", "Signal", q, ["bin", ch.pick(["+", "*", "-"]),
                                                    prev if order == "shared" else ["read", m],
                                                    ["lit", kq, 10]]])
                early.append(q)
        _retyped[0] = False
        if form == "named":
            for _j in range(k - 1):
                uid += 1
                nm = f"s{uid}"
                stmts.append(["decl", "Signal", nm, _step(ch, prev, names)])
                prev = ["var", nm]
            data = _step(ch, prev, names)
        else:
            for _j in range(k):
                prev = _step(ch, prev, names)
            data = prev
            if form == "proj":
                data = ["proj", data, mt]
            elif form == "sel":
                lim = ch.pick([5, 10, 100, 1000])
                data = ["sel", ["bin", "<", ["read", m] if order != "shared" else prev0, ["lit", lim, 10]], data]
        if _retyped[0] and data[0] != "proj":
            data = ["proj", data, mt] if data[0] != "sel" else ["sel", data[1], ["proj", data[2], mt]]
        stmts.append(["write", m, data, None])
        r = f"r{ci + 1}"
        stmts.append(["decl", "Signal", r, ["read", m]])
        readers = []
        for _ in range(ch.rint(0, 2)):
            uid += 1
            q = f"q{uid}"
            kq = ch.i32_biased(-9, 9)
            opq = ch.pick(["+", "*", "-"])
            stmts.append(["decl", "Signal", q, ["bin", opq, ["read", m], ["lit", kq, 10]]])
            readers.append(q)
        cells.append({"mem": m, "type": mt, "reader": r, "chain": k, "computed": readers + early})
    try:
        lang.Interp(stmts).run({i["name"]: i["init"] for i in inputs}, {})
    except lang.RefError:
        pass
    return {
        "prop": PROP, "stmts": stmts, "inputs": inputs, "cells": cells,
        "ticks": ch.pick([60, 90, 140, 200]),
        "options": gen.gen_options(ch), "plan": gen.gen_plan(ch),
    }


def reuses_a_source(stmts) -> bool:
    """Static trigger of KF-crosstalk for this family: some value (an input, the cell's read, a named
    step) is used at two or more places of the computation that feeds one cell's write."""
    decls = {s[2]: s[3] for s in stmts if s[0] == "decl" and s[1] == "Signal"}
    inputs = {n for n, e in decls.items() if e[0] == "siglit"}

    def leaves(e, out, depth=0):
        if not isinstance(e, list) or not e:
            return
        if e[0] == "read":
            out.append(("read", e[1]))
            return
        if e[0] == "var":
            if e[1] in inputs or e[1] not in decls or depth > 12:
                out.append(("var", e[1]))
            else:
                out.append(("step", e[1]))
                leaves(decls[e[1]], out, depth + 1)
            return
        for x in e[1:]:
            if isinstance(x, list):
                leaves(x, out, depth)

    everywhere: list = []
    for s in stmts:
        if s[0] == "write":
            out: list = []
            leaves(s[2], out)
            if len(out) != len(set(out)):
                return True
            everywhere += [x for x in out if x[0] == "var"]
        elif s[0] == "decl" and s[1] == "Signal" and s[3][0] != "siglit":
            out = []
            for x in s[3][1:]:
                if isinstance(x, list) and x[0] == "var" and x[1] in inputs:
                    out.append(("var", x[1]))
            everywhere += out
    # ... or one input feeds two different computations (two cells, a cell and a reader)
    return len(everywhere) != len(set(everywhere))


def run_case(case: dict) -> dict:
    res = base_result(case)
    stmts = case["stmts"]
    src = lang.pprogram(stmts)
    res["source"] = src
    comp = compile_case(src, case["options"], case["plan"])
    merge_fired(res, comp)
    res["events"] = comp["events"]
    if not comp["ok"]:
        res["status"] = "refused"
        res["refusal"] = {"stage": comp["stage"], "error": comp["error"], "crash": comp["crash"]}
        return res
    try:
        w = World(comp["bp"])
        blueprint_probes(res, w)
        obs = Obs(w)
        if "same-source-two-roles" in (case.get("exclude") or []):
            from .c02 import same_source_two_roles

            if same_source_two_roles(stmts):
                res["status"] = "excluded"
                res["excluded_by"] = "same-source-two-roles"
                return res
        if "crosstalk" in (case.get("exclude") or []) and reuses_a_source(stmts):
            # Both must hold: the program has the shape that triggers the known defect (decided on
            # the text: one value feeds the update in two places) AND the emitted blueprint shows
            # the structure.  The structure alone is not enough - a change that *creates* a fused
            # network in a program without that shape must be judged.
            labels = {n: k for k, v in obs.inputs.items() for n in v}
            if crosstalk_sites(w, [], labels, memory_ok=True):
                res["status"] = "excluded"
                res["excluded_by"] = "crosstalk"
                return res
        interp = lang.Interp(stmts)
        vals = {i["name"]: i["init"] for i in case["inputs"]}
        cells = case["cells"]
        warm = settle_bound(w)
        T = case["ticks"]
        has_gate = any("memory: write_gate" in e.desc or "memory: hold_gate" in e.desc
                       for e in w.ents.values())
        probe(res, "two_gate_cell_kept" if has_gate else "arithmetic_feedback_form")
        traces: dict[str, list[int]] = {}
        keys: dict[str, tuple] = {}
        for c in cells:
            got = obs.read_anchor(c["reader"])
            if got is None:
                raise Violation("cell-reader-missing", {"cell": c["mem"]})
            _s, label, _n = got
            if label and label != c["type"]:
                raise Violation("cell-wrong-type", {"cell": c["mem"], "declared": c["type"], "label": label})
            keys[c["reader"]] = gamedata.sk(c["type"])
            traces[c["reader"]] = []
            for q in c["computed"]:
                gq = obs.read_anchor(q)
                if gq is None:
                    continue
                keys[q] = gamedata.sk(gq[1] or c["type"])
                traces[q] = []
        for _t in range(T):
            for name, key in keys.items():
                num = obs.anchors[name][0][0]
                traces[name].append(w.read(num).get(key, 0))
            w.step()
        res["ticks"] += T

        def f_ref(mem: str, v: int) -> int:
            interp.run(vals, {mem: v})
            wr = [x for x in interp.writes if x[0] == mem][0]
            return lang.ival(wr[1])

        def g_ref(mem: str, q: str, v: int) -> int:
            env = interp.run(vals, {mem: v})
            return lang.ival(env[q])

        for c in cells:
            tr = traces[c["reader"]]
            found = None
            for L in range(1, c["chain"] + 4):
                ok = True
                for t in range(warm, T - L):
                    if tr[t + L] != f_ref(c["mem"], tr[t]):
                        ok = False
                        break
                if ok:
                    found = L
                    break
            res["compared"] += 1
            if found is None:
                # show the first disagreement for L = 1..3 to make the report readable
                raise Violation("no-fixed-latency", {
                    "cell": c["mem"], "chain": c["chain"], "warmup": warm,
                    "trace_head": tr[: min(40, T)], "inputs": vals})
            probe(res, f"latency_{found}")
            if len(set(tr[warm:])) > 1:
                probe(res, "cell_value_moves")
            for q in c["computed"]:
                if q not in traces:
                    continue
                tq = traces[q]
                okd = None
                for d in range(1, 4):
                    if all(tq[t + d] == g_ref(c["mem"], q, tr[t]) for t in range(warm, T - d)):
                        okd = d
                        break
                res["compared"] += 1
                if okd is None:
                    raise Violation("reader-disagrees-with-cell", {
                        "cell": c["mem"], "reader": q, "cell_trace": tr[warm:warm + 12],
                        "reader_trace": tq[warm:warm + 12]})
        res["sig"] = [skeleton(stmts), net_signature(w), sorted(res["fired"]), T]
    except Violation as v:
        res["status"] = "violation"
        res["violation"] = {"class": v.cls, "detail": v.detail}
    except ModelGap as g:
        res["status"] = "gap"
        res["gap"] = str(g)
    except lang.RefError as r:
        res["status"] = "invalid"
        res["invalid"] = str(r)
    return res


TIERS = {
    "quick": {"runs": 500, "budget_s": 55, "hashseeds": 4, "shrink_budget": 64, "struct_budget": 160,
              "max_reports": 4},
    "thorough": {"runs": 15000, "budget_s": 900, "hashseeds": 8, "shrink_budget": 400,
                 "struct_budget": 600, "max_reports": 8},
}
RULE = ("seeded programs with 1-2 unconditionally self-written cells (f = chain of 1-6 arithmetic steps "
        "over the cell, constants and held inputs; nested / named / projection / conditional-value "
        "forms; optimisation on and off) x compile fault plan; free-running for 60-200 ticks from the "
        "paste state; non-trivial = compiled and a latency was established for >=1 cell; distinct = "
        "(program skeleton, circuit shape, fault kinds fired, ticks)")
EXPECTED_PROBES = ["two_gate_cell_kept", "arithmetic_feedback_form", "latency_1", "latency_2",
                   "cell_value_moves", "relay_or_pole_present"]
