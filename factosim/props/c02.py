"""C02 - bundle operations act member-wise and never leak foreign signals.

Workload G_bundle: literals (constant, from inputs, computed, nested, merged), `bundle OP
scalar` with constant and signal scalars, filters `(b CMP x) : b|const`, gating
`(s CMP c) : b`, any()/all() as values and inside folded conditions, selection.  Members
include zero and negative values and members on the scalar's own signal type (leak cases).
Oracle: the WHOLE anchor network of every exported bundle equals the reference map of non-zero
members; scalar results as in C01.  Schedule / faults as C01."""
from __future__ import annotations

from .. import gamedata, gen, lang
from ..diagnose import bundle_crosstalk_sites, crosstalk_sites
from ..rng import Chooser
from .common import (ModelGap, Obs, Violation, World, base_result, blueprint_probes,
                     compile_case, fmt_sigs, input_inits, bind_input_aliases, merge_fired, net_signature, probe, settle_bound,
                     skeleton)
from . import c01

PROP = "C02"
TYPES = gen.ALL_TYPES


class BundleGen:
    def __init__(self, ch: Chooser):
        self.ch = ch
        self.stmts: list = []
        self.inputs: list[dict] = []
        self.sig_types: dict[str, str] = {}      # scalar signal name -> type
        self.bundles: dict[str, set] = {}        # bundle name -> static member types
        self.member_vals: dict[str, list] = {}   # bundle name -> some current member values
        self.n = 0
        self.thresholds: set[int] = set()

    def fresh(self, p):
        self.n += 1
        return f"{p}{self.n}"

    def add_input(self, type_=None, dom="small"):
        ch = self.ch
        if type_ is None:
            used = set(self.sig_types.values())
            cands = [t for t in TYPES if t not in used] or TYPES
            type_ = ch.pick(cands)
        lo, hi = gen.DOMAINS[dom]
        v = ch.i32_biased(lo, hi)
        nm = self.fresh("i")
        self.inputs.append({"name": nm, "type": type_, "init": v, "dom": dom})
        self.stmts.append(["decl", "Signal", nm, ["siglit", type_, ["lit", v, 10]]])
        self.sig_types[nm] = type_
        return nm

    def const(self, lo=-20, hi=20):
        v = self.ch.i32_biased(lo, hi)
        self.thresholds.add(v)
        self.thresholds.add(-v)      # valuations where a member cancels against the constant
        return ["lit", v, 10]

    def literal(self):
        """Bundle literal with unique member types."""
        ch = self.ch
        elems, types = [], set()
        n = ch.rint(1, 4)
        cand_inputs = [n_ for n_ in self.sig_types]
        for _ in range(n):
            k = ch.weighted([(4, "input"), (3, "typed"), (1, "computed"), (2 if self.bundles else 0, "nested")])
            if k == "input" and cand_inputs:
                nm = ch.pick(cand_inputs)
                t = self.sig_types[nm]
                if t in types:
                    continue
                types.add(t)
                elems.append(["var", nm])
            elif k == "typed":
                t = ch.pick(TYPES)
                if t in types:
                    continue
                types.add(t)
                elems.append(["siglit", t, self.const(-50, 50)])
            elif k == "computed" and cand_inputs:
                nm = ch.pick(cand_inputs)
                t = self.sig_types[nm]
                if t in types:
                    continue
                types.add(t)
                elems.append(["bin", ch.pick(["*", "+", "-"]), ["var", nm], self.const(-5, 5)])
            elif k == "nested" and self.bundles:
                bn = ch.pick(sorted(self.bundles))
                bt = self.bundles[bn]
                if bt & types or not bt:
                    continue
                types |= bt
                elems.append(["var", bn])
        if not elems:
            t = ch.pick(TYPES)
            types.add(t)
            elems.append(["siglit", t, self.const(-50, 50)])
        return ["blit", elems], types

    def scalar(self):
        """Scalar operand for a bundle op: constant or signal (sometimes on a member's type)."""
        ch = self.ch
        if ch.chance(1, 2):
            return self.const(), None
        nm = ch.pick(sorted(self.sig_types))
        return ["var", nm], nm

    def step(self):
        ch = self.ch
        if not self.bundles or ch.chance(1, 4):
            e, t = self.literal()
            nm = self.fresh("b")
            self.stmts.append(["decl", "Bundle", nm, e])
            self.bundles[nm] = t
            vals = []
            inits = {i["name"]: i["init"] for i in self.inputs}
            for x in e[1]:
                if x[0] == "siglit" and x[2][0] == "lit":
                    vals.append(x[2][1])
                elif x[0] == "var" and x[1] in inits:
                    vals.append(inits[x[1]])
            self.member_vals[nm] = vals
            return
        bn = ch.pick(sorted(self.bundles))
        bt = self.bundles[bn]
        k = ch.weighted([(4, "arith"), (3, "filter"), (2, "gate"), (3, "anyall"), (2, "select"),
                         (1, "anyall_chain")])
        if k == "arith":
            op = ch.pick(["+", "-", "*", "/", "%", "<<", ">>", "AND", "OR", "XOR", "**"])
            if op in ("<<", ">>"):
                s = ["lit", ch.rint(0, 5), 10]
            elif op == "**":
                s = ["lit", ch.rint(0, 3), 10]
            else:
                s, _nm = self.scalar()
            mv = [v for v in self.member_vals.get(bn, []) if -1000 <= v <= 1000 and v]
            if op in ("+", "-") and mv and ch.chance(1, 2):
                # a constant that cancels one member: the member drops out of the result
                v = ch.pick(mv)
                s = ["lit", -v if op == "+" else v, 10]
            e = ["bin", op, ["var", bn], s]
            # inline chains of each-arithmetic (no named intermediate)
            while ch.chance(1, 3):
                op2 = op if ch.chance(3, 4) else ch.pick(["+", "-", "*"])
                e = ["bin", op2, e, self.const(-9, 9)]
            nm = self.fresh("b")
            self.stmts.append(["decl", "Bundle", nm, e])
            self.bundles[nm] = set(bt)
        elif k == "filter":
            s, _nm = self.scalar()
            cond = ["bin", ch.pick(lang.CMP_OPS), ["var", bn], s]
            out = ["var", bn] if ch.chance(2, 3) else self.const(-9, 9)
            nm = self.fresh("b")
            self.stmts.append(["decl", "Bundle", nm, ["sel", cond, out]])
            self.bundles[nm] = set(bt)
        elif k == "gate":
            sn = ch.pick(sorted(self.sig_types))
            cond = ["bin", ch.pick(lang.CMP_OPS), ["var", sn], self.const()]
            nm = self.fresh("b")
            self.stmts.append(["decl", "Bundle", nm, ["sel", cond, ["var", bn]]])
            self.bundles[nm] = set(bt)
        elif k == "anyall":
            q = ch.pick(["any", "all"])
            nm = self.fresh("s")
            self.stmts.append(["decl", "Signal", nm,
                               ["bin", ch.pick(lang.CMP_OPS), [q, ["var", bn]], self.const()]])
        elif k == "anyall_chain":
            q = ch.pick(["any", "all"])
            sn = ch.pick(sorted(self.sig_types))
            op = ch.pick(["&&", "||"])
            e = ["bin", op, ["bin", ch.pick(lang.CMP_OPS), [q, ["var", bn]], self.const()],
                 ["bin", ch.pick(lang.CMP_OPS), ["var", sn], self.const()]]
            nm = self.fresh("s")
            self.stmts.append(["decl", "Signal", nm, e])
        else:
            if not bt:
                return
            t = ch.pick(sorted(bt))
            nm = self.fresh("s")
            e = ["bsel", ["var", bn], t]
            if ch.chance(1, 3):
                e = ["bin", ch.pick(["+", "*"]), e, self.const(-5, 5)]
            self.stmts.append(["decl", "Signal", nm, e])


def gen_case(ch: Chooser, tier: str = "quick") -> dict:
    for _attempt in range(30):
        g = BundleGen(ch)
        for _ in range(ch.rint(1, 3) if ch.chance(1, 2) else ch.rint(2, 5)):
            g.add_input()
        if ch.chance(1, 4):
            # leak case: a scalar input on the type of an existing member
            g.add_input(type_=ch.pick(g.inputs)["type"])
        for _ in range(ch.rint(1, 3) if ch.chance(1, 2) else ch.rint(2, 8)):
            g.step()
        try:
            lang.Interp(g.stmts).run({i["name"]: i["init"] for i in g.inputs})
        except lang.RefError:
            continue
        break
    else:
        raise RuntimeError("bundle generator failed")
    hist = gen.gen_history(ch, g.inputs, g.thresholds, ch.rint(1, 6))
    return {"prop": PROP, "stmts": g.stmts, "inputs": g.inputs, "history": hist,
            "bundle_types": {k: sorted(v) for k, v in g.bundles.items()},
            "options": gen.gen_options(ch), "plan": gen.gen_plan(ch)}


def static_types(stmts) -> tuple[dict, dict]:
    """(bundle name -> static member types, decl name -> types of the bundles its expression reads)"""
    btypes: dict[str, set] = {}
    stypes: dict[str, str | None] = {}
    reads: dict[str, set] = {}

    def ty(e) -> set:
        t = e[0]
        if t == "var":
            if e[1] in btypes:
                return set(btypes[e[1]])
            st = stypes.get(e[1])
            return {st} if st else set()
        if t == "blit":
            out: set = set()
            for x in e[1]:
                out |= ty(x)
            return out
        if t == "bin":
            return ty(e[2])
        if t == "sel":
            c = e[1]
            if c[0] == "bin" and c[2][0] in ("var", "blit") and (c[2][0] == "blit" or c[2][1] in btypes):
                return ty(c[2])
            return ty(e[2])
        if t in ("siglit", "proj"):
            return {e[1] if t == "siglit" else e[2]}
        if t == "bsel":
            return {e[2]}
        if t in ("any", "all"):
            return ty(e[1])
        return set()

    def bundle_reads(e, acc: set):
        if not isinstance(e, list) or not e:
            return
        if e[0] == "var" and e[1] in btypes:
            acc |= btypes[e[1]]
        elif e[0] == "blit":
            acc |= ty(e)
        for x in e[1:]:
            if isinstance(x, list):
                if x and isinstance(x[0], list):
                    for y in x:
                        bundle_reads(y, acc)
                else:
                    bundle_reads(x, acc)

    for s in stmts:
        if s[0] != "decl":
            continue
        name, ex = s[2], s[3]
        acc: set = set()
        bundle_reads(ex, acc)
        reads[name] = acc
        if s[1] == "Bundle":
            btypes[name] = ty(ex)
        elif s[1] == "Signal":
            tt = ty(ex)
            stypes[name] = next(iter(tt)) if len(tt) == 1 else None
    return btypes, reads


def same_source_two_roles(stmts) -> bool:
    """Static trigger of KF-same-source-two-roles: within one operation the same physical
    source reaches the consuming combinator through two operand roles (e.g. a bundle that
    contains input i1, plus i1 again as the scalar operand or as the condition)."""
    decl = {s[2]: s[3] for s in stmts if s[0] == "decl"}

    def sources(e, depth=0):
        """(names of the physical sources behind e, whether e joins them by wires / is a bundle)"""
        t = e[0]
        if t == "var":
            d = decl.get(e[1])
            if d is not None and d[0] in ("blit", "var") and depth < 6:
                s_, m_ = sources(d, depth + 1)
                return s_, m_
            if d is not None and d[0] == "bin" and d[1] == "+" and depth < 6:
                # same-type sums of simple sources may be merged by wires
                a_, _ma = sources(d[2], depth + 1)
                b_, _mb = sources(d[3], depth + 1)
                return a_ | b_ | {e[1]}, len(a_ | b_) >= 2
            return {e[1]}, False
        if t == "blit":
            out: set = set()
            for x in e[1]:
                if x[0] in ("var", "blit"):
                    out |= sources(x, depth + 1)[0]
            return out, True
        if t == "bin" and e[1] == "+" and depth < 6:
            a_, _ma = sources(e[2], depth + 1)
            b_, _mb = sources(e[3], depth + 1)
            return a_ | b_, len(a_ | b_) >= 2
        return set(), False

    def clash(x, y) -> bool:
        (a, ma), (b, mb) = sources(x), sources(y)
        return bool(a & b) and (ma or mb)

    def walk(e) -> bool:
        if not isinstance(e, list) or not e:
            return False
        t = e[0]
        if t == "bin":
            if clash(e[2], e[3]):
                return True
            return walk(e[2]) or walk(e[3])
        if t == "sel":
            c, v = e[1], e[2]
            if c[0] == "bin":
                if c[1] in lang.CMP_OPS and clash(c[2], c[3]):
                    return True
                # filter `(b CMP x) : b` legitimately names the bundle twice
                if c[2] == v:
                    if clash(c[3], v):
                        return True
                elif clash(c[2], v) or clash(c[3], v):
                    return True
            elif c[0] == "var" and clash(c, v):
                return True
            return walk(c) or walk(v)
        if t in ("any", "all", "neg", "not", "proj", "projt", "bsel"):
            return walk(e[1])
        if t == "blit":
            return any(walk(x) for x in e[1])
        return False

    def exprs_of(s):
        if s[0] == "decl":
            return [s[3]]
        if s[0] == "write":
            return [s[2]] + ([s[3]] if s[3] is not None else [])
        if s[0] == "latch":
            return [s[2], s[3], s[4]]
        if s[0] == "enable":
            return [s[2]]
        if s[0] in ("for", "func"):
            out = []
            for b in s[3]:
                out += exprs_of(b)
            if s[0] == "func" and s[4] is not None:
                out.append(s[4])
            return out
        return []

    for s in stmts:
        for e in exprs_of(s):
            if walk(e):
                return True
    # a member of a potential wire merge (sum of simple same-type sources, bundle literal) that is
    # also consumed elsewhere needs two colours as well
    from ..gen import referenced_names

    refs = referenced_names(stmts)
    types = {s[2]: s[3][1] for s in stmts if s[0] == "decl" and s[3][0] == "siglit"}

    def leaves(e, acc):
        if e[0] == "bin" and e[1] == "+":
            leaves(e[2], acc)
            leaves(e[3], acc)
        else:
            acc.append(e)

    def merges(e) -> bool:
        if not isinstance(e, list) or not e:
            return False
        if e[0] == "bin" and e[1] == "+":
            acc: list = []
            leaves(e, acc)
            names = [x[1] for x in acc if x[0] == "var" and x[1] in types]
            by_type: dict = {}
            for n in names:
                by_type.setdefault(types[n], []).append(n)
            for g in by_type.values():
                # `a + a` is not a wire merge (the compiler keeps a combinator for it)
                if len(set(g)) >= 2 and len(set(g)) == len(g) and any(refs.get(n, 0) > 1 for n in g):
                    return True
            return any(merges(x) for x in acc if x[0] != "var")
        return any(merges(x) for x in e[1:] if isinstance(x, list) and x and isinstance(x[0], str)) or \
            any(merges(y) for x in e[1:] if isinstance(x, list) and x and isinstance(x[0], list) for y in x)

    for s in stmts:
        for e in exprs_of(s):
            if merges(e):
                return True
    return False


def static_tags(stmts) -> set:
    """Static triggers of the bundle wiring findings (decided on the program text alone)."""
    tags = set()
    btypes, _reads = static_types(stmts)
    decl = {s[2]: s[3] for s in stmts if s[0] == "decl"}
    sig_types = {s[2]: s[3][1] for s in stmts if s[0] == "decl" and s[3][0] == "siglit"}

    def is_bundle(e) -> bool:
        return (e[0] == "var" and e[1] in btypes) or e[0] == "blit"

    def is_signal(e) -> bool:
        return e[0] != "lit" and not (e[0] == "var" and e[1] not in decl)

    gated: set = set()
    other_use: dict = {}

    def roots(e, depth=0) -> set:
        """Names of the physical sources behind a bundle expression (through aliases/merges)."""
        if e[0] == "var":
            d = decl.get(e[1])
            if d is not None and d[0] in ("blit", "var") and depth < 8:
                return roots(d, depth + 1) | {e[1]}
            return {e[1]}
        if e[0] == "blit":
            out: set = set()
            for x in e[1]:
                out |= roots(x, depth + 1)
            return out
        return set()

    def walk(e, top=True):
        if not isinstance(e, list) or not e:
            return
        t = e[0]
        if t == "sel":
            c, v = e[1], e[2]
            if c[0] == "bin" and c[1] in lang.CMP_OPS and is_bundle(c[2]):
                if c[3][0] != "lit":
                    tags.add("bundle-filter-scalar")        # filter with a signal scalar
                    if c[3][0] == "var":
                        gated.update(roots(c[3]))           # its scalar is locked to green as well
                for r in roots(c[2]):
                    other_use[r] = other_use.get(r, 0) + 1
            elif is_bundle(v):
                gated.update(roots(v))                      # gating: value locked to green
                ctypes = set()
                for side in (c[2], c[3]) if c[0] == "bin" else (c,):
                    if side[0] == "var" and side[1] in sig_types:
                        ctypes.add(sig_types[side[1]])
                    if side[0] == "var" and side[1] in decl:
                        # the condition signal must arrive on red; elsewhere (scalar operand of a
                        # bundle operation) the same source is locked to green
                        other_use[side[1]] = other_use.get(side[1], 0) + 1
                vt = btypes.get(v[1], set()) if v[0] == "var" else set()
                if ctypes & vt:
                    tags.add("bundle-gate-cond-type")       # condition signal on a member's type
            walk(c, False)
            return
        if t == "bin" and e[1] in ("&&", "||"):
            has_q = any(x[0] == "bin" and x[2][0] in ("any", "all") for x in (e[2], e[3]))
            has_sig = any(x[0] == "bin" and x[2][0] not in ("any", "all") for x in (e[2], e[3]))
            if has_q and has_sig:
                tags.add("bundle-anyall-chain")             # any()/all() folded with a signal condition
        if t == "bin" and is_bundle(e[2]):
            for r in roots(e[2]):
                other_use[r] = other_use.get(r, 0) + 1
            if e[3][0] == "var":
                gated.update(roots(e[3]))                   # scalar operand: locked to green too
        if t in ("any", "all", "bsel") and is_bundle(e[1]):
            for r in roots(e[1]):
                other_use[r] = other_use.get(r, 0) + 1
        for x in e[1:]:
            if isinstance(x, list):
                if x and isinstance(x[0], list):
                    for y in x:
                        walk(y, False)
                else:
                    walk(x, False)

    def nested(e) -> bool:
        if not isinstance(e, list) or not e:
            return False
        if e[0] == "blit" and len(e[1]) >= 2:
            for x in e[1]:
                if x[0] == "var" and x[1] in btypes and _is_pure_merge(x, decl):
                    return True
                if x[0] == "blit" and len(x[1]) >= 2:
                    return True
        return any(nested(x) for x in e[1:] if isinstance(x, list) and x and not isinstance(x[0], list)) or \
            any(nested(y) for x in e[1:] if isinstance(x, list) and x and isinstance(x[0], list) for y in x)

    for s in stmts:
        if s[0] == "decl":
            walk(s[3])
    if any(r in other_use for r in gated):
        tags.add("bundle-gate-lock")
    return tags


def _is_pure_merge(e, decl=None, depth=0) -> bool:
    """A bundle value that exists only as wires joined together (a literal of >= 2 sources, or
    an alias / single-element wrapper of one)."""
    if e[0] == "blit":
        if len(e[1]) >= 2:
            return True
        if len(e[1]) == 1 and decl is not None and depth < 8:
            return _is_pure_merge(e[1][0], decl, depth + 1)
        return False
    if e[0] == "var" and decl is not None and depth < 8 and e[1] in decl:
        return _is_pure_merge(decl[e[1]], decl, depth + 1)
    return False


def known_crosstalk(w, obs, stmts) -> bool:
    """The known shared-network structure (named or bundle form) inside ONE program's build."""
    btypes, reads = static_types(stmts)
    allowed = [set(gamedata.sk(t) for t in v) for v in btypes.values()]
    per_entity = {}
    for nm, nums in obs.by_name.items():
        key = nm[len("computing "):] if nm.startswith("computing ") else nm
        if key in reads:
            for n_ in nums:
                per_entity[n_] = set(gamedata.sk(t) for t in reads[key])
    for nm, lst in obs.anchors.items():
        tset = btypes.get(nm) if nm in btypes else reads.get(nm)
        if tset:
            for num, _t in lst:
                per_entity[num] = set(gamedata.sk(t) for t in tset)
    labels = {n: k for k, v in obs.inputs.items() for n in v}
    return bool(bundle_crosstalk_sites(w, allowed, per_entity, anchors=True)
                or crosstalk_sites(w, [], labels))


def run_case(case: dict) -> dict:
    res = base_result(case)
    stmts = case["stmts"]
    src = lang.pprogram(stmts)
    res["source"] = src
    comp = compile_case(src, case["options"], case["plan"])
    merge_fired(res, comp)
    res["events"] = comp["events"]
    if not comp["ok"]:
        res["status"] = "refused"
        res["refusal"] = {"stage": comp["stage"], "error": comp["error"], "crash": comp["crash"]}
        return res
    try:
        w = World(comp["bp"])
        blueprint_probes(res, w)
        obs = Obs(w)
        excl = set(case.get("exclude") or [])
        if "same-source-two-roles" in excl and same_source_two_roles(stmts):
            res["status"] = "excluded"
            res["excluded_by"] = "same-source-two-roles"
            return res
        hit = static_tags(stmts) & excl
        if hit:
            res["status"] = "excluded"
            res["excluded_by"] = sorted(hit)[0]
            return res
        if "crosstalk" in excl and known_crosstalk(w, obs, stmts):
            from ..static_trigger import crosstalk_possible

            if crosstalk_possible(stmts, case["inputs"]):
                res["status"] = "excluded"
                res["excluded_by"] = "crosstalk"
                return res
            # the structure without a program shape that explains it is judged
            probe(res, "crosstalk_structure_without_static_trigger")
        interp = lang.Interp(stmts)
        outs = c01.exported(stmts)
        by_name = {s[2]: s[3] for s in stmts if s[0] == "decl"}
        kinds = {s[2]: s[1] for s in stmts if s[0] == "decl"}
        noanchor_ok = c01.anchorless_allowed(stmts, case["inputs"], case["options"].get("optimize", True))
        vals = input_inits(case)
        missing = bind_input_aliases(obs, case)
        bound = settle_bound(w)
        steps = [{}] + list(case["history"])
        for si, step in enumerate(steps):
            for k, v in step.items():
                if k not in missing and not k.startswith("__"):
                    vals[k] = v
            for k, v in vals.items():
                if k not in missing:
                    obs.set_input(k, v)
            t = w.settle(bound)
            if t is None:
                raise Violation("no-settle", {"bound": bound, "step": si, "inputs": dict(vals)})
            res["ticks"] += t + 1
            env = interp.run(vals)
            where = {"step": si, "inputs": dict(vals)}
            scalars = [n for n in outs if kinds[n] == "Signal"]
            c01.check_outputs(obs, env, scalars, by_name, res, where, noanchor_ok)
            for name in outs:
                if kinds[name] != "Bundle":
                    continue
                exp = env.get(name)
                if not isinstance(exp, lang.Bun) or exp.unknown:
                    continue
                got = obs.read_anchor(name)
                if got is None:
                    if name in noanchor_ok or by_name[name][0] in ("var", "blit"):
                        probe(res, "unanchored_bundle")
                        continue
                    raise Violation("output-missing", {"name": name, "where": where})
                sigs, _label, _n = got
                expected = {gamedata.sk(k): v for k, v in exp.m.items()}
                res["compared"] += 1
                if sigs != expected:
                    extra = {k[1]: v for k, v in sigs.items() if k not in expected}
                    raise Violation("bundle-leak" if extra else "bundle-wrong-members", {
                        "name": name, "expected": {k[1]: v for k, v in sorted(expected.items())},
                        "got": fmt_sigs(sigs), "foreign": extra, "where": where})
                probe(res, "bundle_compared")
                if not expected:
                    probe(res, "empty_bundle_result")
        res["sig"] = [skeleton(stmts), net_signature(w), sorted(res["fired"]), len(steps)]
        if res["compared"] == 0:
            res["status"] = "trivial"
    except Violation as v:
        res["status"] = "violation"
        res["violation"] = {"class": v.cls, "detail": v.detail}
    except ModelGap as g:
        res["status"] = "gap"
        res["gap"] = str(g)
    except lang.RefError as r:
        res["status"] = "invalid"
        res["invalid"] = str(r)
    return res


TIERS = {
    "quick": {"runs": 600, "budget_s": 55, "hashseeds": 4, "shrink_budget": 64, "struct_budget": 160,
              "max_reports": 4},
    "thorough": {"runs": 25000, "budget_s": 900, "hashseeds": 8, "shrink_budget": 400,
                 "struct_budget": 600, "max_reports": 8},
}
RULE = ("seeded stateless bundle programs (2-6 typed inputs incl. a scalar on a member's own type, 2-8 "
        "bundle statements: literals, each-arithmetic, filters, gating, any/all, selection) x compile "
        "fault plan x history of 1-6 valuations; the whole anchor network of every exported bundle is "
        "compared; non-trivial = compiled and >=1 result compared; distinct = (program skeleton, "
        "circuit shape, fault kinds fired, history length)")
EXPECTED_PROBES = ["bundle_compared", "empty_bundle_result", "relay_or_pole_present"]
