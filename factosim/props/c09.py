"""C09 - user-placed entities appear once, where and how the program says, whatever else the
compiler adds and whatever the layout outcome (same fault space as C08, fallback and
decomposition paths weighted up in the thorough tier)."""
from __future__ import annotations

from .. import lang
from ..rng import Chooser
from . import geom
from .common import (ModelGap, Violation, World, base_result, blueprint_probes, compile_case,
                     merge_fired, net_signature, probe, skeleton)

PROP = "C09"
RUN_TIMEOUT_S = {"quick": 300, "thorough": 1200}   # thorough compiles programs of several hundred entities


def gen_case(ch: Chooser, tier: str = "quick") -> dict:
    case = geom.gen_geom_case(ch, tier, PROP, poles="maybe")
    return case


def run_case(case: dict) -> dict:
    res = base_result(case)
    stmts = case["stmts"]
    src = lang.pprogram(stmts)
    res["source"] = src
    comp = compile_case(src, case["options"], case["plan"])
    merge_fired(res, comp)
    res["events"] = comp["events"]
    if not comp["ok"]:
        res["status"] = "refused"
        res["refusal"] = {"stage": comp["stage"], "error": comp["error"], "crash": comp["crash"]}
        return res
    try:
        w = World(comp["bp"])
        blueprint_probes(res, w)
        it = lang.Interp(stmts)
        it.run({i["name"]: i["init"] for i in case["inputs"]})
        if len(w.ents) > 500:
            probe(res, "decomposition_path")
        if any(p.x < 0 or p.y < 0 for p in it.places):
            probe(res, "negative_coordinates")
        if any(geom.gamedata.tile_size(p.proto) != (1, 1) for p in it.places):
            probe(res, "multi_tile_prototype")
        geom.check_user_entities(w, it.places, res)
        res["sig"] = [skeleton(stmts), net_signature(w), sorted(res["fired"]),
                      case["options"].get("poles"), len(it.places)]
    except Violation as v:
        res["status"] = "violation"
        res["violation"] = {"class": v.cls, "detail": v.detail}
    except ModelGap as g:
        res["status"] = "gap"
        res["gap"] = str(g)
    except lang.RefError as r:
        res["status"] = "invalid"
        res["invalid"] = str(r)
    return res


TIERS = {
    "quick": {"runs": 500, "budget_s": 55, "hashseeds": 4, "shrink_budget": 48, "struct_budget": 120,
              "max_reports": 4},
    "thorough": {"runs": 15000, "budget_s": 1200, "hashseeds": 8, "shrink_budget": 300,
                 "struct_budget": 500, "max_reports": 8},
}
RULE = ("seeded programs placing 1..14 (thorough: occasionally 120-420) entities at literal / int-variable / "
        "loop-iterator / arithmetic coordinates, negative tiles, multi-tile prototypes, wired and "
        "unwired x pole options x compile fault plan; oracle: multiset of (prototype, top-left tile, "
        "whitelisted static properties) of non-compiler entities equals the reference unrolling; "
        "distinct = (program skeleton, circuit shape, fault kinds fired, pole option, #placements)")
EXPECTED_PROBES = ["negative_coordinates", "multi_tile_prototype", "relay_or_pole_present"]
