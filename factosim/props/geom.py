"""Shared generator and oracles for the layout-outcome properties C08 (pasteable), C09
(user-placed entities) and C18 (power).  The oracles use only the emitted JSON and the game data
shipped with draftsman (collision boxes, wire reach, supply areas, energy sources)."""
from __future__ import annotations

import math

from .. import gamedata, gen, lang, seam
from ..rng import Chooser
from .common import Violation, World, probe

# prototypes used for user placements: (name, has circuit connection)
PROTOS_WIRED = ["small-lamp", "small-lamp", "small-lamp", "inserter", "fast-inserter",
                "transport-belt", "pump", "train-stop", "power-switch", "assembling-machine-1"]
PROTOS_ANY = PROTOS_WIRED + ["steel-chest", "iron-chest", "storage-tank", "stone-furnace",
                             "electric-furnace", "assembling-machine-2", "radar", "wooden-chest",
                             "medium-electric-pole", "big-electric-pole", "small-electric-pole",
                             "substation"]


class Occupancy:
    def __init__(self):
        self.tiles: set = set()

    def free(self, proto: str, x: int, y: int, margin: int = 0) -> bool:
        w, h = gamedata.tile_size(proto)
        for dx in range(-margin, w + margin):
            for dy in range(-margin, h + margin):
                if (x + dx, y + dy) in self.tiles:
                    return False
        return True

    def take(self, proto: str, x: int, y: int) -> None:
        w, h = gamedata.tile_size(proto)
        for dx in range(w):
            for dy in range(h):
                self.tiles.add((x + dx, y + dy))


def gen_geom_case(ch: Chooser, tier: str, prop: str, *, poles: str = "maybe") -> dict:
    """A program with user-placed entities (wired and unwired) on top of a scalar program."""
    big = tier == "thorough" and ch.chance(1, 40)
    feat = gen.ScalarGen.swarm(ch)
    for _attempt in range(40):
        g = gen.ScalarGen(ch, feat)
        c = g.c
        n_in = ch.rint(1, 3)
        n_st = ch.rint(0, 6)
        g.program(n_in, n_st, max_depth=ch.rint(0, 2))
        occ = Occupancy()
        layout = ch.weighted([(4, "near"), (3, "far"), (2, "negative"), (3, "row"), (2, "mixed"), (3, "func")])
        n_ent = ch.rint(1, 8)
        uid = 0

        def pos() -> tuple[int, int]:
            if layout == "near":
                return ch.rint(0, 12), ch.rint(-6, 2)
            if layout == "far":
                return ch.rint(-5, 70), ch.rint(-40, 40)
            if layout == "negative":
                return ch.rint(-60, -1), ch.rint(-60, -1)
            return ch.rint(-25, 45), ch.rint(-25, 25)

        def cond():
            a = g.sig_leaf()
            thr = ch.i32_biased(-50, 50)
            if ch.chance(2, 3):
                return ["bin", ch.pick(lang.CMP_OPS), a, ["lit", thr, 10]]
            return g.expr(ch.rint(0, 1))

        if layout == "row" or big:
            # a loop placing a row of lamps driven by one source (high fan-out)
            n = ch.rint(3, 14) if not big else ch.rint(120, 420)
            dx = ch.pick([1, 2, 3, 5])
            x0, y0 = ch.rint(-10, 10), ch.rint(-8, 8)
            src = g.sig_leaf()
            xexpr = ["bin", "+", ["bin", "*", ["var", "it"], ["lit", dx, 10]], ["lit", x0, 10]]
            pre = []
            if not big and ch.chance(1, 2):
                # the coordinate goes through an iteration-local int (a constant the compiler holds
                # as a value, not as a literal): `int col = it * dx; place(.., col + x0, ..)`; the
                # first iteration of the 0-based loop makes one operand exactly 0
                pre = [["decl", "int", "col", ["bin", "*", ["var", "it"], ["lit", dx, 10]]]]
                xexpr = ["bin", ch.pick(["+", "-"]), ["var", "col"], ["lit", x0, 10]]
                if xexpr[1] == "-":
                    xexpr[3] = ["lit", -x0, 10]
            body = pre + [["place", "lamp", "small-lamp", xexpr, ["lit", y0, 10], None],
                          ["enable", "lamp", ["bin", ch.pick([">", ">=", "==", "<"]), src, ["var", "it"]]]]
            c.stmts.append(["for", "it", ["range", ["lit", 0, 10], ["lit", n, 10], None], body])
            for i in range(n):
                occ.take("small-lamp", x0 + i * dx, y0)
            n_ent = ch.rint(0, 3)
        if layout == "func":
            # entities placed by helper functions: every call contributes its own entity.  Callee and
            # caller share parameter names, arguments are arithmetic on them, and a top-level int of
            # the same name is used as a coordinate after a call
            proto = ch.pick(["small-lamp", "small-lamp", "steel-chest", "inserter"])
            wired_f = proto != "steel-chest" and ch.chance(1, 2)
            fbody = [["place", "l", proto, ["var", "x"], ["var", "y"], None]]
            params = [["int", "x"], ["int", "y"]]
            if wired_f:
                params.append(["Signal", "s"])
                fbody.append(["enable", "l", ["bin", ch.pick(lang.CMP_OPS), ["var", "s"], ["var", "x"]]])
            c.stmts.append(["func", "put", params, fbody, None])
            extra = [g.sig_leaf()] if wired_f else []
            nested = ch.chance(2, 3)
            if nested:
                dxs = sorted({ch.rint(1, 4) for _ in range(ch.rint(2, 3))})
                rbody = [["expr", ["call", "put", [["bin", "+", ["var", "x"], ["lit", d, 10]],
                                                   ["bin", "+", ["var", "y"], ["lit", ch.pick([0, 0, 2]), 10]]]
                                   + ([["var", "s"]] if wired_f else [])]] for d in dxs]
                c.stmts.append(["func", "row", [list(p_) for p_ in params], rbody, None])
            top_x = ch.chance(1, 2)
            if top_x:
                c.stmts.append(["decl", "int", "x", ["lit", ch.rint(-6, 6), 10]])
            for ci in range(ch.rint(1, 3)):
                fx, fy = ch.rint(-12, 30), ch.rint(-20, -8) - 3 * ci
                c.stmts.append(["expr", ["call", "row" if (nested and ch.chance(2, 3)) else "put",
                                         [["lit", fx, 10], ["lit", fy, 10]] + extra]])
            if top_x:
                c.stmts.append(["place", "after", "small-lamp", ["var", "x"], ["lit", 12, 10], None])
            n_ent = ch.rint(0, 2)
        for _ in range(n_ent):
            wired = ch.chance(2, 3)
            proto = ch.pick(PROTOS_WIRED if wired else PROTOS_ANY)
            for _try in range(30):
                x, y = pos()
                if occ.free(proto, x, y):
                    break
            else:
                continue
            occ.take(proto, x, y)
            uid += 1
            name = f"e{uid}"
            props = None
            if proto == "train-stop" and ch.chance(1, 2):
                props = {"station": ch.pick(["Alpha", "Iron Pickup", "X"])}
            if proto == "small-lamp" and ch.chance(1, 4):
                props = {"use_colors": 1, "always_on": 1}
            xe = ["lit", x, 10]
            ye = ["lit", y, 10]
            if c.ints and ch.chance(1, 5):
                k = ch.pick(sorted(c.ints))
                xe = ["bin", "+", ["var", k], ["lit", x - c.ints[k], 10]]
            c.stmts.append(["place", name, proto, xe, ye, props])
            if wired:
                c.stmts.append(["enable", name, cond()])
        stmts = c.stmts
        inputs = c.inputs
        try:
            it = lang.Interp(stmts)
            it.run({i["name"]: i["init"] for i in inputs})
        except lang.RefError:
            continue
        if not it.places:
            continue
        if layout == "func":
            occ2 = Occupancy()
            clash = False
            for p_ in it.places:
                if not occ2.free(p_.proto, p_.x, p_.y):
                    clash = True
                    break
                occ2.take(p_.proto, p_.x, p_.y)
            if clash:
                continue
        break
    else:
        raise RuntimeError("geometry generator failed")
    opts = gen.gen_options(ch, allow_poles=poles != "never")
    if poles == "always":
        opts["poles"] = ch.pick(["small", "medium", "big", "substation"])
    elif poles == "maybe" and ch.chance(1, 3):
        opts["poles"] = ch.pick(["small", "medium", "big", "substation"])
    return {"prop": prop, "stmts": stmts, "inputs": inputs, "options": opts,
            "plan": gen.gen_plan(ch, heavy=True), "big": big}


def family_case(ch: Chooser, tier: str, prop: str, *, poles: str = "maybe") -> dict:
    """Geometry workload: mostly placement programs, sometimes the memory / latch / scalar
    families (their circuits must be pasteable too)."""
    k = ch.weighted([(6, "geom"), (1, "c01"), (1, "c03"), (1, "c05"), (1, "c04")])
    if k == "geom":
        return gen_geom_case(ch, tier, prop, poles=poles)
    from . import c01, c03, c04, c05

    mod = {"c01": c01, "c03": c03, "c04": c04, "c05": c05}[k]
    case = mod.gen_case(ch, tier)
    case["prop"] = prop
    case["family"] = k
    case["plan"] = gen.gen_plan(ch, heavy=True)
    if poles == "always":
        case["options"]["poles"] = ch.pick(["small", "medium", "big", "substation"])
    elif poles == "never":
        case["options"]["poles"] = None
    return case


# ----------------------------------------------------------------------------- oracles
def rects_overlap(a, b, eps: float = 1e-9) -> bool:
    return a[0] < b[2] - eps and b[0] < a[2] - eps and a[1] < b[3] - eps and b[1] < a[3] - eps


import re

_RE_MEM = re.compile(r"\bmem:(\w+)")


def _mem_tag(e):
    m = _RE_MEM.search(e.desc or "")
    return m.group(1) if m else None


def check_pasteable(w: World, res: dict, excl=frozenset()) -> None:
    # wires: existing endpoints, connectors the prototype has, one colour per wire
    if w.defects:
        raise Violation("bad-wire", {"defects": w.defects[:5]})
    # collision boxes pairwise disjoint (sweep over x)
    rects = []
    unchecked = 0
    for e in w.ents.values():
        r = gamedata.collision_rect(e.name, e.x, e.y, e.direction)
        if r is None:
            unchecked += 1
            continue
        rects.append((r, e))
    if unchecked:
        probe(res, "entities_without_collision_data", unchecked)
    rects.sort(key=lambda t: t[0][0])
    active: list = []
    for r, e in rects:
        active = [(r2, e2) for r2, e2 in active if r2[2] > r[0] + 1e-9]
        for r2, e2 in active:
            if rects_overlap(r, r2):
                raise Violation("overlap", {
                    "a": {"n": e2.num, "name": e2.name, "pos": [e2.x, e2.y], "desc": e2.desc},
                    "b": {"n": e.num, "name": e.name, "pos": [e.x, e.y], "desc": e.desc}})
        active.append((r, e))
    # circuit wire reach
    longest = 0.0
    for (e1, _c1, e2, _c2, col) in w.wires:
        a, b = w.ents[e1], w.ents[e2]
        d = math.dist((a.x, a.y), (b.x, b.y))
        longest = max(longest, d)
        ra, rb = gamedata.circuit_reach(a.name), gamedata.circuit_reach(b.name)
        if ra is None or rb is None:
            probe(res, "wire_endpoint_without_reach_data")
            continue
        lim = min(ra, rb)
        if d > lim + 1e-6 and "mem-internal-wire" in excl:
            ta, tb = _mem_tag(a), _mem_tag(b)
            if ta is not None and ta == tb:
                probe(res, "known_finding_wire_not_judged")
                continue
        if d > lim + 1e-6:
            raise Violation("wire-too-long", {
                "colour": col, "length": round(d, 3), "limit": lim,
                "a": {"n": a.num, "name": a.name, "pos": [a.x, a.y], "desc": a.desc},
                "b": {"n": b.num, "name": b.name, "pos": [b.x, b.y], "desc": b.desc}})
    res["longest_wire"] = round(longest, 2)
    res["compared"] += len(w.wires) + len(rects)


def _nonpole_sequence(w: World):
    return [e for e in sorted(w.ents.values(), key=lambda x: x.num) if e.kind != "pole"]


def logical_blocks(w: World, with_poles: bool):
    """Partition of non-pole circuit connectors, as frozensets of (rank, connector).
    with_poles=False ignores every wire that touches a pole."""
    seq = _nonpole_sequence(w)
    rank = {e.num: i for i, e in enumerate(seq)}
    parent: dict = {}

    def find(a):
        while parent.setdefault(a, a) != a:
            parent[a] = parent[parent[a]]
            a = parent[a]
        return a

    for (e1, c1, e2, c2, _col) in w.wires:
        p1, p2 = w.ents[e1].kind == "pole", w.ents[e2].kind == "pole"
        if (p1 or p2) and not with_poles:
            continue
        a, b = find((e1, c1)), find((e2, c2))
        if a != b:
            parent[a] = b
    blocks: dict = {}
    for key in list(parent):
        if w.ents[key[0]].kind == "pole":
            continue
        blocks.setdefault(find(key), set()).add((rank[key[0]], key[1]))
    return [frozenset(b) for b in blocks.values()], seq


def check_relays(w: World, ref: World, res: dict) -> None:
    """Relay poles never join two different circuit networks: every network of the faulted
    build (poles contracted) must lie inside one network of the relay-free reference build,
    unless the same merge already exists without the pole wires."""
    fa, seq_a = logical_blocks(w, with_poles=True)
    rb, seq_b = logical_blocks(ref, with_poles=True)
    sig_a = [(e.name, seam.digest(e.cb), e.desc) for e in seq_a]
    sig_b = [(e.name, seam.digest(e.cb), e.desc) for e in seq_b]
    if [(n, d) for n, _c, d in sig_a] != [(n, d) for n, _c, d in sig_b]:
        probe(res, "relay_check_skipped_entities_differ")
        return
    owner = {}
    for i, blk in enumerate(rb):
        for m in blk:
            owner[m] = i
    nopole, _ = logical_blocks(w, with_poles=False)
    nopole_owner = {}
    for i, blk in enumerate(nopole):
        for m in blk:
            nopole_owner[m] = i
    for blk in fa:
        owners = {owner.get(m, ("solo", m)) for m in blk}
        if len(owners) > 1:
            # is the merge caused by pole wires?  (without them the members are separate)
            if len({nopole_owner.get(m, ("solo", m)) for m in blk}) > 1:
                members = sorted(blk)[:8]
                raise Violation("relay-joins-networks", {
                    "members": [[seq_a[r].num, seq_a[r].name, c, seq_a[r].desc] for r, c in members],
                    "reference_networks": len(owners)})
            probe(res, "network_merge_not_through_poles")
    res["compared"] += len(fa)


def user_entities(w: World):
    return [e for e in w.ents.values() if e.kind == "other"]


def check_user_entities(w: World, places, res: dict) -> None:
    """Multiset of (prototype, top-left tile) of non-compiler entities == reference placements;
    whitelisted static properties applied."""
    exp: dict = {}
    exp_poles: dict = {}
    for p in places:
        if gamedata.kind_of(p.proto) == "pole":
            exp_poles.setdefault((p.proto, p.x, p.y), []).append(p)
        else:
            exp.setdefault((p.proto, p.x, p.y), []).append(p)
    # user-placed poles: the compiler adds poles of its own, so only presence is demanded
    if exp_poles:
        have: dict = {}
        for e in w.ents.values():
            if e.kind == "pole":
                tw, th = gamedata.tile_size(e.name, e.direction)
                key = (e.name, int(round(e.x - tw / 2.0)), int(round(e.y - th / 2.0)))
                have[key] = have.get(key, 0) + 1
        for k, lst in exp_poles.items():
            if have.get(k, 0) < len(lst):
                raise Violation("user-entity-missing-or-moved", {
                    "expected": list(k), "count_expected": len(lst), "count_got": have.get(k, 0),
                    "same_prototype_at": sorted(kk for kk in have if kk[0] == k[0])[:10]})
        probe(res, "user_placed_poles_checked", len(exp_poles))
    got: dict = {}
    for e in user_entities(w):
        tw, th = gamedata.tile_size(e.name, e.direction)
        tx, ty = e.x - tw / 2.0, e.y - th / 2.0
        if abs(tx - round(tx)) > 1e-6 or abs(ty - round(ty)) > 1e-6:
            raise Violation("user-entity-off-grid", {"name": e.name, "pos": [e.x, e.y]})
        got.setdefault((e.name, int(round(tx)), int(round(ty))), []).append(e)
    for k, lst in exp.items():
        g = got.get(k, [])
        if len(g) != len(lst):
            near = [kk for kk in got if kk[0] == k[0]]
            raise Violation("user-entity-missing-or-moved" if len(g) < len(lst) else "user-entity-duplicated", {
                "expected": list(k), "count_expected": len(lst), "count_got": len(g),
                "same_prototype_at": sorted(near)[:10]})
    for k, g in got.items():
        if k not in exp:
            raise Violation("unexpected-entity", {"entity": list(k)})
    # static properties with an unambiguous JSON spelling
    for k, lst in exp.items():
        for p, e in zip(lst, got[k]):
            props = p.props or {}
            if "station" in props and e.raw.get("station") != props["station"]:
                raise Violation("static-property-lost", {"entity": list(k), "property": "station",
                                                         "expected": props["station"],
                                                         "got": e.raw.get("station")})
            if props.get("always_on") and e.raw.get("always_on") is not True:
                raise Violation("static-property-lost", {"entity": list(k), "property": "always_on",
                                                         "got": e.raw.get("always_on")})
            if props.get("use_colors") and (e.cb.get("use_colors") is not True):
                raise Violation("static-property-lost", {"entity": list(k), "property": "use_colors",
                                                         "got": e.cb.get("use_colors")})
    res["compared"] += len(places)
    probe(res, "user_entities_checked", len(places))


POLE_PROTO = {"small": "small-electric-pole", "medium": "medium-electric-pole",
              "big": "big-electric-pole", "substation": "substation"}


def check_power(w: World, pole_type: str | None, res: dict, excl=frozenset(), user_poles=frozenset()) -> None:
    def is_user(p):
        tw, th = gamedata.tile_size(p.name, p.direction)
        return (p.name, int(round(p.x - tw / 2.0)), int(round(p.y - th / 2.0))) in user_poles

    poles = [e for e in w.ents.values() if e.kind == "pole" and not is_user(e)]
    if pole_type is None:
        # without the option no pole other than circuit relays may be emitted
        wired = {e for (e1, _c1, e2, _c2, _col) in w.wires for e in (e1, e2)}
        for p in poles:
            if p.num not in wired:
                raise Violation("pole-without-option", {"name": p.name, "pos": [p.x, p.y],
                                                        "desc": p.desc})
        if w.copper and not any(e.kind == "pole" for e in w.ents.values()):
            raise Violation("copper-without-poles", {})
        return
    proto = POLE_PROTO[pole_type]
    grid = [p for p in poles if p.name == proto]
    consumers = [e for e in w.ents.values() if gamedata.consumes_electricity(e.name)]
    judge_cov = "power-coverage" not in excl
    if not judge_cov:
        probe(res, "known_finding_coverage_not_judged")
    if consumers and not grid and judge_cov:
        raise Violation("no-pole-of-requested-type", {"type": proto, "consumers": len(consumers)})
    sa = gamedata.supply_area(proto)
    for e in consumers if judge_cov else []:
        r = gamedata.collision_rect(e.name, e.x, e.y, e.direction)
        if r is None:
            # fall back to the tile box
            tw, th = gamedata.tile_size(e.name, e.direction)
            r = (e.x - tw / 2, e.y - th / 2, e.x + tw / 2, e.y + th / 2)
        covered = False
        for p in grid:
            area = (p.x - sa, p.y - sa, p.x + sa, p.y + sa)
            if rects_overlap(r, area):
                covered = True
                break
        if not covered:
            nearest = min(grid, key=lambda p: math.dist((p.x, p.y), (e.x, e.y)))
            raise Violation("consumer-not-powered", {
                "entity": {"n": e.num, "name": e.name, "pos": [e.x, e.y], "desc": e.desc},
                "pole_type": proto, "supply_area_distance": sa,
                "nearest_pole": [nearest.x, nearest.y],
                "distance": round(math.dist((nearest.x, nearest.y), (e.x, e.y)), 2)})
    # copper wires within reach of both ends
    for a, b in w.copper:
        ea, eb = w.ents[a], w.ents[b]
        ra, rb = gamedata.copper_reach(ea.name), gamedata.copper_reach(eb.name)
        d = math.dist((ea.x, ea.y), (eb.x, eb.y))
        if ra is None or rb is None:
            raise Violation("copper-on-non-pole", {"a": ea.name, "b": eb.name})
        if d > min(ra, rb) + 1e-6:
            raise Violation("copper-too-long", {"length": round(d, 2), "limit": min(ra, rb),
                                                "a": [ea.name, ea.x, ea.y], "b": [eb.name, eb.x, eb.y]})
    # all poles (requested type and relays alike) form one electric network
    if "power-grid-split" in excl:
        probe(res, "known_finding_connectivity_not_judged")
    elif poles:
        parent = {p.num: p.num for p in poles}

        def find(a):
            while parent[a] != a:
                parent[a] = parent[parent[a]]
                a = parent[a]
            return a

        for a, b in w.copper:
            if a in parent and b in parent:
                parent[find(a)] = find(b)
        roots = {find(p.num) for p in grid}
        if len(roots) > 1:
            comps: dict = {}
            for p in grid:
                comps.setdefault(find(p.num), []).append([p.x, p.y])
            raise Violation("power-grid-not-connected", {
                "components": len(roots),
                "sample": [v[:3] for v in list(comps.values())[:4]]})
    res["compared"] += len(consumers) + len(w.copper)
    probe(res, "power_checked")
