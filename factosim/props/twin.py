"""Twin co-simulation: two builds driven by the same schedule, observations compared.

Observation points (found the way a user finds them): every output anchor (by declared name)
and every user-placed entity's circuit condition (by prototype and position).  Names that
inlining / unrolling repeat are compared as multisets per name group (necessary for
equivalence, can never raise a false alarm)."""
from __future__ import annotations

import copy
import re

from .. import gamedata, lang
from ..diagnose import bundle_crosstalk_sites, crosstalk_sites
from ..observe import Obs
from ..world import WILDCARDS, World
from .common import Violation, probe

_WILD_NAMES = {k[1] for k in WILDCARDS} | {"bundle"}


def observe(w: World, obs: Obs, group=None, group_ent=None) -> dict:
    """key -> value.  group(name) maps a declared name to its comparison group; group_ent(name,
    entity) does the same with the anchor entity at hand (its description carries the source line)."""
    out: dict = {}
    multi: dict = {}
    for name, lst in obs.anchors.items():
        g0 = group(name) if group else name
        for num, label in lst:
            g = group_ent(name, w.ents[num]) if group_ent else g0
            sigs = w.read(num)
            if label is None or label in _WILD_NAMES:
                val = tuple(sorted((k[1], v) for k, v in sigs.items()))
            else:
                val = sigs.get(gamedata.sk(label), 0)
            multi.setdefault(("anchor", g), []).append(val)
    for k, vals in multi.items():
        out[k] = tuple(sorted(vals, key=repr))
    for e in w.ents.values():
        if e.kind == "other":
            c = w.condition_of(e.num)
            if c is not None:
                out[("cond", e.name, e.x, e.y)] = c
    return out


def has_known_structure(w: World, obs: Obs, memory: bool, stmts=None, inputs=None) -> bool:
    """The structure of KF-crosstalk in one build.  With the program given, the structure only
    counts when the program text can trigger the known defect (static_trigger): a fused network in
    a program without that shape is something else and must be judged."""
    if stmts is not None:
        from ..static_trigger import crosstalk_possible

        if not crosstalk_possible(stmts, inputs or []):
            return False
    labels = {n: k for k, v in obs.inputs.items() for n in v}
    return bool(crosstalk_sites(w, [], labels, memory_ok=memory))


class Twin:
    """Two (or more) worlds stepped together."""

    def __init__(self, worlds: list[World], srcs: list | None = None):
        self.ws = worlds
        self.obs = [Obs(w, s) for w, s in zip(worlds, srcs or [None] * len(worlds))]

    def set_inputs(self, vals: dict) -> None:
        for o in self.obs:
            for k, v in vals.items():
                if k in o.inputs:
                    o.set_input(k, v)

    def settle_all(self, extra: int = 4):
        ts = []
        for w in self.ws:
            ts.append(w.settle(len(w.combs) + 3 + extra))
        return ts


def _sub_multiset(small, big) -> bool:
    pool = list(big)
    for x in small:
        if x in pool:
            pool.remove(x)
        else:
            return False
    return True


def compare_obs(a: dict, b: dict, res: dict, where, what: str, keys=None, first_may_expose_fewer=False) -> None:
    common = set(a) & set(b) if keys is None else set(keys) & set(a) & set(b)
    res["compared"] += len(common)
    for k in sorted(common, key=repr):
        if first_may_expose_fewer and k[0] == "anchor" and isinstance(a[k], tuple) and isinstance(b[k], tuple):
            # names local to a loop iteration / call may keep an anchor only for some copies
            # (a folded local may also keep an anchor in the first build only)
            if _sub_multiset(a[k], b[k]) or _sub_multiset(b[k], a[k]):
                continue
        if a[k] != b[k]:
            raise Violation(what, {"at": list(map(str, k)), "first": repr(a[k])[:300],
                                   "second": repr(b[k])[:300], "where": where})
    if not common:
        probe(res, "no_common_observation_point")


def _trace_point(w: World, obs: Obs, group, group_ent=None):
    """One tick's observation with anchor identity kept: (group, anchor entity) -> value."""
    out = {}
    for name, lst in obs.anchors.items():
        g0 = group(name) if group else name
        for num, label in lst:
            g = group_ent(name, w.ents[num]) if group_ent else g0
            sigs = w.read(num)
            if label is None or label in _WILD_NAMES:
                val = tuple(sorted((k[1], v) for k, v in sigs.items()))
            else:
                val = sigs.get(gamedata.sk(label), 0)
            out[("anchor", g, num)] = val
    for e in w.ents.values():
        if e.kind == "other":
            c = w.condition_of(e.num)
            if c is not None:
                out[("cond", e.name, e.x, e.y)] = c
    return out


def compare_free_running(tw: "Twin", res: dict, where, what: str, group=None, shift: int = 6,
                         window: int = 16, first_may_expose_fewer: bool = False,
                         group_ents=(None, None)) -> int:
    """Programs with free-running cells never come to rest, and the language promises no latency:
    two builds of one program may differ by a few ticks of delay on any path.  Run both builds,
    record every observation point per tick, and require for every point a constant shift d
    (|d| <= shift) under which the two traces agree over a window taken after warm-up.  Anchors of
    one name group are matched one-to-one (the first build may expose fewer when names are local).
    Returns the number of ticks stepped per world."""
    wa, wb = tw.ws[0], tw.ws[1]
    warm = max(len(wa.combs), len(wb.combs)) + 4
    T = warm + 2 * shift + window
    tr = [{}, {}]
    for _t in range(T):
        for i in (0, 1):
            for k, v in _trace_point(tw.ws[i], tw.obs[i], group, group_ents[i]).items():
                tr[i].setdefault(k, []).append(v)
            tw.ws[i].step()
    lo, hi = warm + shift, T - shift

    def same(a, b):
        return any(all(a[t] == b[t + d] for t in range(lo, hi)) for d in range(-shift, shift + 1))

    n = 0
    for k in sorted((k for k in tr[0] if k[0] == "cond" and k in tr[1]), key=repr):
        n += 1
        if not same(tr[0][k], tr[1][k]):
            raise Violation(what, {"at": list(map(str, k)), "first": repr(tr[0][k][lo:lo + 12]),
                                   "second": repr(tr[1][k][lo:lo + 12]), "where": where})
    groups = [{}, {}]
    for i in (0, 1):
        for k, v in tr[i].items():
            if k[0] == "anchor":
                groups[i].setdefault(k[1], []).append(v)
    for g in sorted(set(groups[0]) & set(groups[1])):
        la, lb = groups[0][g], groups[1][g]
        n += 1
        if len(la) != len(lb) and not first_may_expose_fewer:
            raise Violation(what, {"at": ["anchor", g], "first": f"{len(la)} anchors",
                                   "second": f"{len(lb)} anchors", "where": where})
        if len(la) > len(lb):
            la, lb = lb, la          # local names: either build may keep fewer anchors
        ok = [[same(a, b) or same(b, a) for b in lb] for a in la]

        def assign(i, used):
            if i == len(la):
                return True
            for j in range(len(lb)):
                if j not in used and ok[i][j] and assign(i + 1, used | {j}):
                    return True
            return False

        if not assign(0, frozenset()):
            raise Violation(what, {"at": ["anchor", g], "first": repr([a[lo:lo + 10] for a in la])[:400],
                                   "second": repr([b[lo:lo + 10] for b in lb])[:400], "where": where})
    res["compared"] += n
    if not n:
        probe(res, "no_common_observation_point")
    return T


# ----------------------------------------------------------------------------- AST transforms
def rename(node, mapping: dict):
    """Rename declared names everywhere (expressions, statements)."""
    if isinstance(node, list):
        if node and isinstance(node[0], str):
            t = node[0]
            n = [rename(x, mapping) if isinstance(x, (list, dict)) else x for x in node]
            if t in ("var", "read", "eout") and isinstance(node[1], str):
                n[1] = mapping.get(node[1], node[1])
            elif t == "projt":
                n[2] = mapping.get(node[2], node[2])
            elif t == "siglitt":
                n[1] = mapping.get(node[1], node[1])
            elif t == "decl":
                n[2] = mapping.get(node[2], node[2])
            elif t in ("mem", "write", "latch", "enable", "place", "assign"):
                if isinstance(node[1], str):
                    n[1] = mapping.get(node[1], node[1])
            elif t == "call":
                n[1] = mapping.get(node[1], node[1])
            elif t == "func":
                n[1] = mapping.get(node[1], node[1])
            elif t == "for":
                n[1] = mapping.get(node[1], node[1])
            return n
        return [rename(x, mapping) for x in node]
    return node


def declared_names(stmts) -> list[str]:
    out = []
    for s in stmts:
        if s[0] == "decl":
            out.append(s[2])
        elif s[0] in ("mem", "func") or (s[0] == "place" and s[1]):
            out.append(s[1])
        elif s[0] == "for":
            out.append(s[1])
            out += declared_names(s[3])
    return out


def subst(node, name: str, repl):
    """Replace ["var", name] by repl (deep copy)."""
    if isinstance(node, list):
        if node and node[0] == "var" and node[1] == name:
            return copy.deepcopy(repl)
        return [subst(x, name, repl) for x in node]
    return node


_RE_SUFFIX = re.compile(r"^(.*?)(?:__\w+)?$")


def base_group(name: str) -> str:
    """Comparison group of a name: the part before the `__` suffix added by unrolling / inlining."""
    return name.split("__")[0]


# ----------------------------------------------------------------------------- unrolling
def loop_values(it, env_ints: dict) -> list[int]:
    """Values of a loop iterator per the documented semantics (exclusive end, default step 1)."""
    def ev(e):
        if e[0] == "lit":
            return e[1]
        if e[0] == "var":
            return env_ints[e[1]]
        raise lang.RefError("loop bound must be a literal or an int variable")

    if it[0] == "list":
        return list(it[1])
    a, b = ev(it[1]), ev(it[2])
    st = 1 if it[3] is None else ev(it[3])
    if st == 0:
        raise lang.RefError("zero step")
    out = []
    x = a
    while (st > 0 and x < b) or (st < 0 and x > b):
        out.append(x)
        x += st
        if len(out) > 5000:
            raise lang.RefError("loop too long")
    return out


def unroll(stmts, env_ints: dict | None = None, tag: str = "") -> list:
    """The reference unrolling: copies of the body with the iterator replaced by each value in
    order and every name declared in the body renamed apart per iteration."""
    env_ints = dict(env_ints or {})
    out = []
    for s in stmts:
        if s[0] == "decl" and s[1] == "int":
            try:
                env_ints[s[2]] = lang.Interp([]).ev(_subst_ints(s[3], env_ints), {})
            except Exception:
                pass
            out.append(s)
        elif s[0] == "for":
            var, it, body = s[1], s[2], s[3]
            for idx, v in enumerate(loop_values(it, env_ints)):
                suffix = f"{tag}__{var}n{idx}v{v}".replace("-", "m")
                b2 = subst(copy.deepcopy(body), var, ["lit", v, 10])
                names = [n for n in declared_names_shallow(b2)]
                b2 = rename(b2, {n: n + suffix for n in names})
                inner_env = dict(env_ints)
                inner_env[var] = v
                out += unroll(b2, inner_env, suffix)
        else:
            out.append(s)
    return out


def _subst_ints(e, env_ints):
    if isinstance(e, list):
        if e and e[0] == "var" and e[1] in env_ints:
            return ["lit", env_ints[e[1]], 10]
        return [_subst_ints(x, env_ints) for x in e]
    return e


def declared_names_shallow(stmts) -> list[str]:
    out = []
    for s in stmts:
        if s[0] == "decl":
            out.append(s[2])
        elif s[0] in ("mem",) or (s[0] == "place" and s[1]):
            out.append(s[1])
        elif s[0] == "for":
            # names declared inside a nested loop are renamed when that loop is unrolled
            pass
    return out


# ----------------------------------------------------------------------------- inlining
class _Inliner:
    def __init__(self, stmts):
        self.funcs = {s[1]: s for s in stmts if s[0] == "func"}
        self.n = 0
        self.ints: dict = {}

    def const_int(self, e, local_ints):
        env = dict(self.ints)
        env.update(local_ints)
        v = lang.Interp([]).ev(_subst_ints(e, env), {})
        if not isinstance(v, int):
            raise lang.RefError("int parameter needs a compile-time integer argument")
        return v

    def expr(self, e, pre: list, local_ints: dict):
        """Return e with every call replaced by its (renamed) return expression; statements the
        call bodies contribute are appended to `pre`."""
        if not isinstance(e, list) or not e:
            return e
        if e[0] == "call" and e[1] in self.funcs:
            f = self.funcs[e[1]]
            args = [self.expr(a, pre, local_ints) for a in e[2]]
            self.n += 1
            suf = f"__{e[1]}c{self.n}"     # declaring function + call-site number
            body = copy.deepcopy(f[3])
            ret = copy.deepcopy(f[4])
            ints = {}
            # locals are renamed apart FIRST, so that argument expressions substituted
            # afterwards can never be captured by a local of the same name
            names = declared_names_shallow(body)
            mp = {n: n + suf for n in names}
            body = rename(body, mp)
            if ret is not None:
                ret = rename(ret, mp)
            for (pt, pn), a in zip(f[2], args):
                if pt == "int":
                    v = self.const_int(a, local_ints)
                    ints[pn] = v
                    body = subst(body, pn, ["lit", v, 10])
                    ret = subst(ret, pn, ["lit", v, 10]) if ret is not None else None
                elif pt == "Signal":
                    if a[0] == "var":
                        repl = a
                    else:
                        nm = pn + suf
                        pre.append(["decl", "Signal", nm, a])
                        repl = ["var", nm]
                    body = rename(subst(body, pn, repl), {pn: repl[1]})   # .type accesses too
                    if ret is not None:
                        ret = rename(subst(ret, pn, repl), {pn: repl[1]})
                else:  # Entity
                    if a[0] != "var":
                        raise lang.RefError("entity argument must be a name")
                    body = rename(body, {pn: a[1]})
                    if ret is not None:
                        ret = rename(ret, {pn: a[1]})
            li = dict(local_ints)
            li.update(ints)
            pre.extend(self.block(body, li))
            return self.expr(ret, pre, li) if ret is not None else None
        if e[0] == "blit":
            return ["blit", [self.expr(x, pre, local_ints) for x in e[1]]]
        return [self.expr(x, pre, local_ints) if isinstance(x, list) else x for x in e]

    def block(self, stmts, local_ints: dict) -> list:
        out = []
        alias: dict = {}
        for s in stmts:
            s = rename(s, alias) if alias else s
            t = s[0]
            if t == "func":
                continue
            pre: list = []
            if t == "decl":
                ex = self.expr(s[3], pre, local_ints)
                out += pre
                if s[1] == "int":
                    try:
                        v = self.const_int(ex, local_ints)
                        if not local_ints:
                            self.ints[s[2]] = v
                        else:
                            local_ints[s[2]] = v
                    except Exception:
                        pass
                if s[1] == "Entity" and ex is not None and ex[0] == "var":
                    alias[s[2]] = ex[1]        # `Entity e = f(...)` names the entity the call placed
                    continue
                out.append(["decl", s[1], s[2], ex])
            elif t == "write":
                d = self.expr(s[2], pre, local_ints)
                w = self.expr(s[3], pre, local_ints) if s[3] is not None else None
                out += pre + [["write", s[1], d, w]]
            elif t == "latch":
                v = self.expr(s[2], pre, local_ints)
                a = self.expr(s[3], pre, local_ints)
                b = self.expr(s[4], pre, local_ints)
                out += pre + [["latch", s[1], v, a, b, s[5]]]
            elif t == "enable":
                ex = self.expr(s[2], pre, local_ints)
                out += pre + [["enable", s[1], ex]]
            elif t == "assign":
                ex = self.expr(s[2], pre, local_ints)
                out += pre + [["assign", s[1], ex]]
            elif t == "expr":
                ex = self.expr(s[1], pre, local_ints)
                out += pre
                if ex is not None and ex[0] not in ("var", "lit"):
                    out.append(["expr", ex])
            elif t == "place":
                x = self.expr(s[3], pre, local_ints)
                y = self.expr(s[4], pre, local_ints)
                out += pre + [["place", s[1], s[2], x, y, s[5]]]
            elif t == "for":
                out.append(["for", s[1], s[2], self.block(s[3], dict(local_ints))])
            else:
                out.append(s)
        return out


def inline_calls(stmts) -> list:
    """Manual inlining: every call replaced by the function's body with parameters bound, locals
    renamed apart per call site and the return expression in place of the call.  Loops are
    unrolled first so that each iteration's call gets its own copy."""
    flat = unroll(stmts)
    inl = _Inliner(flat)
    return inl.block(flat, {})
