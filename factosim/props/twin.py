"""Twin co-simulation: two builds driven by the same schedule, observations compared.

Observation points (found the way a user finds them): every output anchor (by declared name)
and every user-placed entity's circuit condition (by prototype and position).  Names that
inlining / unrolling repeat are compared as multisets per name group (necessary for
equivalence, can never raise a false alarm)."""
from __future__ import annotations

import copy
import re

from .. import gamedata, lang
from ..diagnose import bundle_crosstalk_sites, crosstalk_sites
from ..observe import Obs
from ..world import WILDCARDS, World
from .common import Violation, probe

_WILD_NAMES = {k[1] for k in WILDCARDS} | {"bundle"}


def observe(w: World, obs: Obs, group=None) -> dict:
    """key -> value.  group(name) maps a declared name to its comparison group."""
    out: dict = {}
    multi: dict = {}
    for name, lst in obs.anchors.items():
        g = group(name) if group else name
        for num, label in lst:
            sigs = w.read(num)
            if label is None or label in _WILD_NAMES:
                val = tuple(sorted((k[1], v) for k, v in sigs.items()))
            else:
                val = sigs.get(gamedata.sk(label), 0)
            multi.setdefault(("anchor", g), []).append(val)
    for k, vals in multi.items():
        out[k] = tuple(sorted(vals, key=repr))
    for e in w.ents.values():
        if e.kind == "other":
            c = w.condition_of(e.num)
            if c is not None:
                out[("cond", e.name, e.x, e.y)] = c
    return out


def has_known_structure(w: World, obs: Obs, memory: bool) -> bool:
    labels = {n: k for k, v in obs.inputs.items() for n in v}
    return bool(crosstalk_sites(w, [], labels, memory_ok=memory))


class Twin:
    """Two (or more) worlds stepped together."""

    def __init__(self, worlds: list[World]):
        self.ws = worlds
        self.obs = [Obs(w) for w in worlds]

    def set_inputs(self, vals: dict) -> None:
        for o in self.obs:
            for k, v in vals.items():
                if k in o.inputs:
                    o.set_input(k, v)

    def settle_all(self, extra: int = 4):
        ts = []
        for w in self.ws:
            ts.append(w.settle(len(w.combs) + 3 + extra))
        return ts


def compare_obs(a: dict, b: dict, res: dict, where, what: str, keys=None) -> None:
    common = set(a) & set(b) if keys is None else set(keys) & set(a) & set(b)
    res["compared"] += len(common)
    for k in sorted(common, key=repr):
        if a[k] != b[k]:
            raise Violation(what, {"at": list(map(str, k)), "first": repr(a[k])[:300],
                                   "second": repr(b[k])[:300], "where": where})
    if not common:
        probe(res, "no_common_observation_point")


# ----------------------------------------------------------------------------- AST transforms
def rename(node, mapping: dict):
    """Rename declared names everywhere (expressions, statements)."""
    if isinstance(node, list):
        if node and isinstance(node[0], str):
            t = node[0]
            n = [rename(x, mapping) if isinstance(x, (list, dict)) else x for x in node]
            if t in ("var", "read", "eout") and isinstance(node[1], str):
                n[1] = mapping.get(node[1], node[1])
            elif t == "projt":
                n[2] = mapping.get(node[2], node[2])
            elif t == "siglitt":
                n[1] = mapping.get(node[1], node[1])
            elif t == "decl":
                n[2] = mapping.get(node[2], node[2])
            elif t in ("mem", "write", "latch", "enable", "place"):
                if isinstance(node[1], str):
                    n[1] = mapping.get(node[1], node[1])
            elif t == "call":
                n[1] = mapping.get(node[1], node[1])
            elif t == "func":
                n[1] = mapping.get(node[1], node[1])
            elif t == "for":
                n[1] = mapping.get(node[1], node[1])
            return n
        return [rename(x, mapping) for x in node]
    return node


def declared_names(stmts) -> list[str]:
    out = []
    for s in stmts:
        if s[0] == "decl":
            out.append(s[2])
        elif s[0] in ("mem", "func") or (s[0] == "place" and s[1]):
            out.append(s[1])
        elif s[0] == "for":
            out.append(s[1])
            out += declared_names(s[3])
    return out


def subst(node, name: str, repl):
    """Replace ["var", name] by repl (deep copy)."""
    if isinstance(node, list):
        if node and node[0] == "var" and node[1] == name:
            return copy.deepcopy(repl)
        return [subst(x, name, repl) for x in node]
    return node


_RE_SUFFIX = re.compile(r"^(.*?)(?:__\w+)?$")


def base_group(name: str) -> str:
    """Comparison group of a name: the part before the `__` suffix added by unrolling / inlining."""
    return name.split("__")[0]
