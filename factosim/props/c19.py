"""C19 - the same source always yields the same logical circuit.

Stateful machine in one process: compile(P_i, options, fault plan), chdir, compile(P_j), ...,
recompile(P_i).  Every result is canonicalised (positions, relay poles and numbering erased;
WL colour-refinement hash) and compared with the canonical circuit of a FRESH-PROCESS compile of
the same source on the same tree (hash seed 0, default solver mode).  The outcome class
(accepted / refused in the front end) is part of the result.  Faults: hash seed of the process,
solver seed / budget / mode, routing failures, earlier compilations, working directory.
No golden files: the reference is recomputed from the current tree on every run."""
from __future__ import annotations

import copy
import json
import os
import shutil
import subprocess
import tempfile

from .. import canon, engine, gen, lang, seam
from ..rng import Chooser
from .common import base_result, merge_fired, probe, skeleton

PROP = "C19"

POLLUTERS = [
    'Entity c = place("steel-chest", 0, 0);\nBundle b = c.output;\nSignal x = b["foo-bar"];\nSignal y = x + 1;\n',
    'Entity c = place("steel-chest", 0, 0);\nBundle b = c.output;\nSignal x = b["signal-zeta"] * 2;\n',
    'Signal a = ("signal-A", 1);\nSignal p = a | "made-up-signal";\n',
]
VICTIMS = [
    'Signal s = ("foo-bar", 1);\nSignal t = s + 1;\n',
    'Signal s = ("signal-zeta", 4);\nSignal t = s * 3;\n',
    'Signal s = ("made-up-signal", 2);\nSignal t = s - 1;\n',
]
REFUSED = [
    'Signal a = undefined_name + 1;\n',
    'Signal a = ("signal-A", 1);\nSignal a = ("signal-B", 2);\n',
    'Signal w = ("signal-W", 1);\n',
]
DIRS = ["repo", "scratch", "root"]


def _gen_stmts(ch: Chooser, tier: str) -> list:
    k = ch.weighted([(5, "c01"), (2, "c03"), (2, "c05"), (2, "geom"), (3, "c04"), (2, "loader")])
    from . import c01, c03, c04, c05, geom

    if k == "loader":
        return gen.loader_program(ch)[0]

    if k == "geom":
        case = geom.gen_geom_case(ch, "quick", PROP, poles="never")
    else:
        case = {"c01": c01, "c03": c03, "c04": c04, "c05": c05}[k].gen_case(ch, "quick")
    return case["stmts"]


def _gen_program(ch: Chooser, tier: str) -> str:
    return lang.pprogram(_gen_stmts(ch, tier))


def _variant(ch: Chooser, stmts: list) -> list:
    """An edited copy of a program, the way a session recompiles after a small change: same names,
    same statement shapes (so internal numbering coincides), one to three expression sites changed:
    a cell read replaced by a plain value or the reverse, a variable by another one, a literal or
    an operator changed.  The edit may make the program ill-formed; then both sides must refuse."""
    st = copy.deepcopy(stmts)
    sigs = [s[2] for s in st if s[0] == "decl" and s[1] == "Signal"]
    mems = [s[1] for s in st if s[0] == "mem"]
    mtype = {s[1]: s[2] for s in st if s[0] == "mem" and isinstance(s[2], str)}
    sites: list = []

    def walk(node, parent, idx):
        if not isinstance(node, list) or not node:
            return
        if isinstance(node[0], str):
            if node[0] in ("var", "read", "lit") or (node[0] == "bin" and node[1] in ("+", "-", "*")):
                if parent is not None:
                    sites.append((parent, idx))
            for i, x in enumerate(node):
                if isinstance(x, list):
                    walk(x, node, i)
        else:
            for i, x in enumerate(node):
                walk(x, node, i)

    for s in st:
        if s[0] == "decl" and s[1] == "Signal":
            walk(s[3], s, 3)
        elif s[0] == "write":
            walk(s[2], s, 2)
        elif s[0] == "enable":
            walk(s[2], s, 2)
    if not sites:
        return st
    read_sites = [x for x in sites if x[0][x[1]][0] == "read"]
    for k in range(ch.rint(1, 3)):
        pool_ = read_sites if (k == 0 and read_sites and ch.chance(1, 2)) else sites
        parent, idx = pool_[ch.draw(len(pool_))]
        node = parent[idx]
        if node[0] == "read" and (sigs or len(mems) > 1):
            # keep the program well-typed: the replacement is projected onto the cell's type
            # (one node for one node, so later internal numbering coincides with the original)
            others = [m for m in mems if m != node[1]]
            t = mtype.get(node[1])
            if others and (ch.chance(1, 3) or not sigs):
                o = ch.pick(others)
                parent[idx] = ["read", o] if mtype.get(o) == t or t is None else ["proj", ["read", o], t]
            elif t is not None and ch.chance(3, 4):
                parent[idx] = ["proj", ["var", ch.pick(sigs)], t]
            else:
                parent[idx] = ["var", ch.pick(sigs)]
        elif node[0] == "var" and node[1] in sigs:
            parent[idx] = ["read", ch.pick(mems)] if (mems and ch.chance(1, 2)) else ["var", ch.pick(sigs)]
        elif node[0] == "lit":
            parent[idx] = ["lit", node[1] + ch.pick([-1, 1, 2]), 10]
        elif node[0] == "bin":
            parent[idx] = ["bin", ch.pick([o for o in ("+", "-", "*") if o != node[1]]), node[2], node[3]]
    return st


def gen_case(ch: Chooser, tier: str = "quick") -> dict:
    progs = []
    edits: list = []
    n = ch.rint(1, 3)
    for _ in range(n):
        st = _gen_stmts(ch, tier)
        progs.append(lang.pprogram(st))
        if ch.chance(2, 3):
            # an edited version of the same program, compiled in the same session
            try:
                v = lang.pprogram(_variant(ch, st))
            except Exception:
                continue
            if v != progs[-1]:
                progs.append(v)
                edits.append((len(progs) - 2, len(progs) - 1))
    special = ch.weighted([(5, "none"), (3, "pollute"), (1, "refused")])
    if special == "pollute":
        i = ch.draw(len(POLLUTERS))
        progs.append(POLLUTERS[i])
        progs.append(VICTIMS[i])
    elif special == "refused":
        progs.append(ch.pick(REFUSED))
    ops = []
    n_ops = ch.rint(2, 6)
    for _ in range(n_ops):
        if ch.chance(1, 6):
            ops.append({"op": "chdir", "dir": ch.pick(DIRS)})
            continue
        i = ch.draw(len(progs))
        ops.append({"op": "compile", "prog": i, "options": gen.gen_options(ch),
                    "plan": gen.gen_plan(ch)})
    for a, b in edits:
        # edit-and-recompile: the two versions back to back, either order, same options
        if ch.chance(5, 6):
            o = gen.gen_options(ch)
            if ch.chance(1, 2):
                a, b = b, a
            ops.append({"op": "compile", "prog": a, "options": o, "plan": gen.gen_plan(ch)})
            ops.append({"op": "compile", "prog": b, "options": o, "plan": gen.gen_plan(ch)})
    if special == "pollute":
        # the interesting order: polluter first, victim afterwards
        pi, vi = len(progs) - 2, len(progs) - 1
        ops.append({"op": "compile", "prog": pi, "options": {"optimize": True, "poles": None, "retries": 3},
                    "plan": {"solver": {"mode": "det"}}})
        ops.append({"op": "compile", "prog": vi, "options": {"optimize": True, "poles": None, "retries": 3},
                    "plan": {"solver": {"mode": "det"}}})
    # recompile the first compiled program at the end
    first = next((o for o in ops if o["op"] == "compile"), None)
    if first is not None and ch.chance(2, 3):
        ops.append({"op": "compile", "prog": first["prog"], "options": first["options"],
                    "plan": gen.gen_plan(ch)})
    return {"prop": PROP, "programs": progs, "ops": ops, "special": special}


REF_SERVER = True     # the worker keeps one fresh-process reference server (factosim.refcompile --serve)


def ref_env() -> dict:
    env = dict(os.environ)
    env["PYTHONHASHSEED"] = "0"
    env["PYTHONPATH"] = engine.VERIF + os.pathsep + seam.REPO
    return env


def _reference(jobs: list[dict]) -> list[dict]:
    from .. import refcompile

    out = refcompile.request(jobs)
    if out is not None:
        return out
    env = ref_env()
    p = subprocess.run([engine.PY, "-m", "factosim.refcompile"], input=json.dumps(jobs),
                       capture_output=True, text=True, env=env, cwd=engine.VERIF, timeout=100)
    if p.returncode != 0:
        raise RuntimeError("reference process failed: " + p.stderr[-500:])
    return json.loads(p.stdout)


FRONT_END = ("parse", "parsing", "semantic", "lowering", "error", "returned-false")


def run_case(case: dict) -> dict:
    res = base_result(case)
    progs = case["programs"]
    res["sources"] = progs
    compiles = [o for o in case["ops"] if o["op"] == "compile"]
    keys = []
    for o in compiles:
        k = (o["prog"], json.dumps(o["options"], sort_keys=True))
        if k not in keys:
            keys.append(k)
    jobs = [{"src": progs[k[0]], "options": json.loads(k[1])} for k in keys]
    refs = dict(zip(keys, _reference(jobs)))
    res["compiles"] += len(jobs)
    excl = set(case.get("exclude") or [])
    scratch = tempfile.mkdtemp(prefix="fv-c19-")
    start_cwd = os.getcwd()
    history = []
    try:
        for oi, o in enumerate(case["ops"]):
            if o["op"] == "chdir":
                d = {"repo": seam.REPO, "scratch": scratch, "root": "/"}[o["dir"]]
                os.chdir(d)
                probe(res, "chdir")
                history.append(f"chdir {o['dir']}")
                continue
            src = progs[o["prog"]]
            ref = refs[(o["prog"], json.dumps(o["options"], sort_keys=True))]
            comp = seam.compile_source(src, optimize=o["options"].get("optimize", True),
                                       poles=o["options"].get("poles"),
                                       retries=o["options"].get("retries", 3), plan=o["plan"])
            merge_fired(res, comp)
            history.append(f"compile P{o['prog']} {o['options']} {o['plan']['solver']['mode']}")
            same_before = sum(1 for h in history[:-1] if h.startswith(f"compile P{o['prog']} "))
            if same_before:
                probe(res, "recompile_of_same_program")
            if len([h for h in history[:-1] if h.startswith("compile")]) > 0:
                probe(res, "compile_after_other_compile")
            where = {"op_index": oi, "program": o["prog"], "history": list(history),
                     "hashseed": os.environ.get("PYTHONHASHSEED")}
            if not comp["ok"] and comp["stage"] in ("layout_planning", "crash") and ref["ok"]:
                probe(res, "refused_under_injected_fault")
                continue
            if comp["ok"] != ref["ok"]:
                res["status"] = "violation"
                res["violation"] = {"class": "outcome-differs-from-fresh-process", "detail": {
                    "fresh_process": {"ok": ref["ok"], "stage": ref["stage"], "error": ref["error"]},
                    "this_process": {"ok": comp["ok"], "stage": comp["stage"],
                                     "error": (comp["error"] or "")[:300]},
                    "source": src, "where": where}}
                return res
            res["compared"] += 1
            if not comp["ok"]:
                probe(res, "both_refused")
                continue
            c = canon.canonical(comp["bp"])
            if c["hash"] != ref["canon"]["hash"]:
                a, b = c["configs"], ref["canon"]["configs"]
                res["status"] = "violation"
                res["violation"] = {"class": "logical-circuit-differs-from-fresh-process", "detail": {
                    "entities": [c["entities"], ref["canon"]["entities"]],
                    "networks": [c["networks"], ref["canon"]["networks"]],
                    "configs_equal": a == b,
                    "source": src, "options": o["options"], "plan": o["plan"], "where": where}}
                return res
        res["sig"] = [seam.digest(progs), [o.get("prog", o.get("dir")) for o in case["ops"]],
                      sorted(res["fired"])]
    finally:
        os.chdir(start_cwd)
        shutil.rmtree(scratch, ignore_errors=True)
    if res["compared"] == 0:
        res["status"] = "trivial"
    return res


TIERS = {
    "quick": {"runs": 160, "budget_s": 60, "hashseeds": 4, "shrink_budget": 32, "struct_budget": 0,
              "max_reports": 3},
    "thorough": {"runs": 4000, "budget_s": 1200, "hashseeds": 8, "shrink_budget": 200,
                 "struct_budget": 0, "max_reports": 6},
}
RULE = ("seeded histories of 2-8 operations in one process (compile one of 1-5 programs under options + "
        "fault plan, chdir, recompile) run in interpreters with different hash seeds; every result "
        "compared (outcome class + canonical logical circuit) with a fresh-process, hash-seed-0, "
        "default-mode compile of the same source on the same tree; distinct = (program set, operation "
        "sequence, fault kinds fired)")
EXPECTED_PROBES = ["chdir", "recompile_of_same_program", "compile_after_other_compile", "both_refused"]
