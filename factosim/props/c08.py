"""C08 - every emitted blueprint can be pasted: no overlaps, all wires reach, relays never join
two circuit networks.  The flagship for fault injection: every compile-side fault kind
(deterministic CP-SAT at several budgets and seeds, injected UNKNOWN outcomes, first-solution
stop, perturbed-objective feasible points that spread entities far apart, forced routing
failures and retries), every pole option, optimisation on/off, hash seeds."""
from __future__ import annotations

from .. import lang
from ..rng import Chooser
from . import geom
from .common import (ModelGap, Violation, World, base_result, blueprint_probes, compile_case,
                     merge_fired, net_signature, probe, skeleton)

PROP = "C08"
RUN_TIMEOUT_S = {"quick": 300, "thorough": 1200}   # thorough compiles programs of several hundred entities


def gen_case(ch: Chooser, tier: str = "quick") -> dict:
    return geom.family_case(ch, tier, PROP, poles="maybe")


def run_case(case: dict) -> dict:
    res = base_result(case)
    stmts = case["stmts"]
    src = lang.pprogram(stmts)
    res["source"] = src
    comp = compile_case(src, case["options"], case["plan"])
    merge_fired(res, comp)
    res["events"] = comp["events"]
    if not comp["ok"]:
        res["status"] = "refused"
        res["refusal"] = {"stage": comp["stage"], "error": comp["error"], "crash": comp["crash"]}
        return res
    try:
        try:
            w = World(comp["bp"])
        except ModelGap:
            raise
        blueprint_probes(res, w)
        excl = set(case.get("exclude") or [])
        n_poles = sum(1 for e in w.ents.values() if e.kind == "pole")
        if any(ev[0] == "route" for ev in comp["events"]):
            probe(res, "relay_routing_exercised")
        if comp["solve_calls"] > 1:
            probe(res, "more_than_one_solve")
        if len(w.ents) > 500:
            probe(res, "decomposition_path")
        geom.check_pasteable(w, res, excl)
        if n_poles:
            plan = {"solver": {"mode": "det"}, "reference_no_relays": True}
            opts = dict(case["options"])
            opts["poles"] = None
            ref = compile_case(src, opts, plan)
            res["compiles"] += 1
            if ref["ok"]:
                geom.check_relays(w, World(ref["bp"]), res)
                probe(res, "relay_partition_checked")
            else:
                probe(res, "reference_build_refused")
        res["sig"] = [skeleton(stmts), net_signature(w), sorted(res["fired"]),
                      case["options"].get("poles"), n_poles]
    except Violation as v:
        res["status"] = "violation"
        res["violation"] = {"class": v.cls, "detail": v.detail}
    except ModelGap as g:
        res["status"] = "gap"
        res["gap"] = str(g)
    except lang.RefError as r:
        res["status"] = "invalid"
        res["invalid"] = str(r)
    return res


TIERS = {
    "quick": {"runs": 500, "budget_s": 55, "hashseeds": 4, "shrink_budget": 48, "struct_budget": 120,
              "max_reports": 4},
    "thorough": {"runs": 15000, "budget_s": 1200, "hashseeds": 8, "shrink_budget": 300,
                 "struct_budget": 500, "max_reports": 8},
}
RULE = ("seeded programs (user-placed entities near / far / negative / in loop rows on top of scalar "
        "programs; memory, latch and scalar families) x {no poles, small, medium, big, substation} x "
        "optimise on/off x retries x compile fault plan biased to perturbed-objective layouts and "
        "injected solver / routing failures; non-trivial = compiled and every wire and collision box "
        "checked; distinct = (program skeleton, circuit shape, fault kinds fired, pole option, pole count)")
EXPECTED_PROBES = ["relay_or_pole_present", "relay_routing_exercised", "more_than_one_solve",
                   "relay_partition_checked"]
