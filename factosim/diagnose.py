"""Structural recognisers for known defect classes, evaluated on the emitted blueprint
*before* any verdict is looked at (so excluding a run never depends on whether it would pass).

crosstalk_sites(w): places where an operand that names one signal X reads a network on which
two or more emitters can output X.  The language has exactly one construct that intends such a
sum - the wire-merge of same-typed simple sources by `+` - and the caller passes the groups of
declared names the program adds that way; every other such site is the known finding
"shared-network crosstalk" (KF-crosstalk): the compiler colours each source->sink edge on its
own and never looks at what else the physical network carries.
"""
from __future__ import annotations

from .world import ANY, EACH, EVERY, World, sigkey, _sel

WILD = (EACH, ANY, EVERY)


def _emits(e) -> set | None:
    """Set of signal keys the entity can emit; None = any signal (wildcard / environment)."""
    if e.kind == "const":
        return set(e.keys)
    if e.kind == "arith":
        ac = e.cb.get("arithmetic_conditions") or {}
        o = sigkey(ac.get("output_signal"))
        if o is None:
            return set()
        return None if o in WILD else {o}
    if e.kind == "decider":
        outs = (e.cb.get("decider_conditions") or {}).get("outputs") or []
        s = set()
        for o in outs:
            k = sigkey(o.get("signal"))
            if k is None:
                continue
            if k in WILD:
                return None
            s.add(k)
        return s
    return set()


def _reads(e):
    """Yield (signal key, (red, green)) for every named-signal read of the entity."""
    if e.kind == "arith":
        ac = e.cb.get("arithmetic_conditions") or {}
        for side in ("first", "second"):
            k = sigkey(ac.get(f"{side}_signal"))
            if k is not None and k not in WILD:
                yield k, _sel(ac.get(f"{side}_signal_networks"))
    elif e.kind == "decider":
        dc = e.cb.get("decider_conditions") or {}
        for c in dc.get("conditions") or []:
            for side in ("first", "second"):
                k = sigkey(c.get(f"{side}_signal"))
                if k is not None and k not in WILD:
                    yield k, _sel(c.get(f"{side}_signal_networks"))
        for o in dc.get("outputs") or []:
            k = sigkey(o.get("signal"))
            if k is not None and k not in WILD and o.get("copy_count_from_input", True):
                yield k, _sel(o.get("networks"))
    else:
        cc = e.cb.get("circuit_condition")
        if cc:
            for side in ("first", "second"):
                k = sigkey(cc.get(f"{side}_signal"))
                if k is not None and k not in WILD:
                    yield k, (True, True)


import re

_RE_MEM = re.compile(r"\bmem:(\w+)")


def crosstalk_sites(w: World, merge_groups: list[set] | None = None, labels: dict | None = None,
                    memory_ok: bool = False):
    """List of (reader entity, signal, emitters) with >= 2 possible emitters on the networks the
    operand reads.  `labels` maps constant-combinator entity numbers to declared names;
    `merge_groups` are sets of declared names intentionally summed on one wire."""
    merge_groups = merge_groups or []
    labels = labels or {}
    # emitters per network
    net_emit: dict[int, list] = {}
    for e in w.ents.values():
        if e.kind == "const":
            conns = (1, 2)
        elif e.kind in ("arith", "decider"):
            conns = (3, 4)
        elif e.emit:
            conns = (1, 2)
        else:
            continue
        em = _emits(e) if not e.emit else None
        for c in conns:
            n = e.net.get(c)
            if n is not None:
                net_emit.setdefault(n, []).append((e.num, em))
    sites = []
    for e in w.ents.values():
        for key, (sr, sg) in _reads(e):
            ems = []
            if sr and 1 in e.net:
                ems += net_emit.get(e.net[1], [])
            if sg and 2 in e.net:
                ems += net_emit.get(e.net[2], [])
            who = sorted({num for num, em in ems if em is None or key in em})
            if memory_ok and len(who) >= 2:
                # the two gates of one memory cell legitimately share the cell's network
                seen_mod = set()
                kept = []
                for n in who:
                    m = _RE_MEM.search(w.ents[n].desc or "")
                    if m:
                        if m.group(1) in seen_mod:
                            continue
                        seen_mod.add(m.group(1))
                    kept.append(n)
                who = kept
            if len(who) < 2:
                continue
            names = {labels.get(n) for n in who}
            if None not in names and any(names <= g for g in merge_groups):
                continue
            sites.append((e.num, key[1], who))
    return sites
