"""Structural recognisers for known defect classes, evaluated on the emitted blueprint
*before* any verdict is looked at (so excluding a run never depends on whether it would pass).

crosstalk_sites(w): places where an operand that names one signal X reads a network on which
two or more emitters can output X.  The language has exactly one construct that intends such a
sum - the wire-merge of same-typed simple sources by `+` - and the caller passes the groups of
declared names the program adds that way; every other such site is the known finding
"shared-network crosstalk" (KF-crosstalk): the compiler colours each source->sink edge on its
own and never looks at what else the physical network carries.
"""
from __future__ import annotations

from .world import ANY, EACH, EVERY, World, sigkey, _sel

WILD = (EACH, ANY, EVERY)


def _emits(e) -> set | None:
    """Set of signal keys the entity can emit; None = any signal (wildcard / environment)."""
    if e.kind == "const":
        return set(e.keys)
    if e.kind == "arith":
        ac = e.cb.get("arithmetic_conditions") or {}
        o = sigkey(ac.get("output_signal"))
        if o is None:
            return set()
        return None if o in WILD else {o}
    if e.kind == "decider":
        outs = (e.cb.get("decider_conditions") or {}).get("outputs") or []
        s = set()
        for o in outs:
            k = sigkey(o.get("signal"))
            if k is None:
                continue
            if k in WILD:
                return None
            s.add(k)
        return s
    return set()


def _reads(e):
    """Yield (signal key, (red, green)) for every named-signal read of the entity."""
    if e.kind == "arith":
        ac = e.cb.get("arithmetic_conditions") or {}
        for side in ("first", "second"):
            k = sigkey(ac.get(f"{side}_signal"))
            if k is not None and k not in WILD:
                yield k, _sel(ac.get(f"{side}_signal_networks"))
    elif e.kind == "decider":
        dc = e.cb.get("decider_conditions") or {}
        for c in dc.get("conditions") or []:
            for side in ("first", "second"):
                k = sigkey(c.get(f"{side}_signal"))
                if k is not None and k not in WILD:
                    yield k, _sel(c.get(f"{side}_signal_networks"))
        for o in dc.get("outputs") or []:
            k = sigkey(o.get("signal"))
            if k is not None and k not in WILD and o.get("copy_count_from_input", True):
                yield k, _sel(o.get("networks"))
    else:
        cc = e.cb.get("circuit_condition")
        if cc:
            for side in ("first", "second"):
                k = sigkey(cc.get(f"{side}_signal"))
                if k is not None and k not in WILD:
                    yield k, (True, True)


import re

_RE_MEM = re.compile(r"\bmem:(\w+)")


def crosstalk_sites(w: World, merge_groups: list[set] | None = None, labels: dict | None = None,
                    memory_ok: bool = False):
    """List of (reader entity, signal, emitters) with >= 2 possible emitters on the networks the
    operand reads.  `labels` maps constant-combinator entity numbers to declared names;
    `merge_groups` are sets of declared names intentionally summed on one wire."""
    merge_groups = merge_groups or []
    labels = labels or {}
    # emitters per network
    net_emit: dict[int, list] = {}
    for e in w.ents.values():
        if e.kind == "const":
            conns = (1, 2)
        elif e.kind in ("arith", "decider"):
            conns = (3, 4)
        elif e.emit:
            conns = (1, 2)
        else:
            continue
        em = _emits(e) if not e.emit else None
        for c in conns:
            n = e.net.get(c)
            if n is not None:
                net_emit.setdefault(n, []).append((e.num, em))
    sites = []
    # output anchors show their whole network to the user: two emitters of one signal there
    # are a sum nobody asked for (unless it is an intended same-type wire merge)
    for e in w.ents.values():
        if e.kind == "const" and not e.keys and "output anchor" in (e.desc or ""):
            per_key: dict = {}
            wild = []
            for c in (1, 2):
                n = e.net.get(c)
                if n is None:
                    continue
                for num, em in net_emit.get(n, []):
                    if em is None:
                        wild.append(num)
                    else:
                        for k in em:
                            per_key.setdefault(k, set()).add(num)
            for k, who in per_key.items():
                tot = sorted(who | set(wild))
                if memory_ok and len(tot) >= 2:
                    seen_mod = set()
                    kept = []
                    for n in tot:
                        m = _RE_MEM.search(w.ents[n].desc or "")
                        if m:
                            if m.group(1) in seen_mod:
                                continue
                            seen_mod.add(m.group(1))
                        kept.append(n)
                    tot = kept
                if len(tot) >= 2:
                    names = {labels.get(n) for n in tot}
                    if None not in names and any(names <= g for g in merge_groups):
                        continue
                    sites.append((e.num, k[1], tot))
            if len(set(wild)) >= 2:
                sites.append((e.num, "*", sorted(set(wild))))
    for e in w.ents.values():
        for key, (sr, sg) in _reads(e):
            # the known finding is about what ONE wire network carries: two emitters of X on the
            # same colour.  One emitter per colour with an operand that reads both colours is a
            # network-selection matter and is judged, never excluded.
            per_net = []
            if sr and 1 in e.net:
                per_net.append(net_emit.get(e.net[1], []))
            if sg and 2 in e.net:
                per_net.append(net_emit.get(e.net[2], []))
            who: list = []
            for ems in per_net:
                cand = sorted({num for num, em in ems if em is None or key in em})
                if len(cand) > len(who):
                    who = cand
            if memory_ok and len(who) >= 2:
                # the two gates of one memory cell legitimately share the cell's network
                seen_mod = set()
                kept = []
                for n in who:
                    m = _RE_MEM.search(w.ents[n].desc or "")
                    if m:
                        if m.group(1) in seen_mod:
                            continue
                        seen_mod.add(m.group(1))
                    kept.append(n)
                who = kept
            if len(who) < 2:
                continue
            names = {labels.get(n) for n in who}
            if None not in names and any(names <= g for g in merge_groups):
                continue
            sites.append((e.num, key[1], who))
    # same family (an operand reads a sum nobody asked for): folded multi-condition rows that
    # read both colours while their signal arrives on both (KF-multi-cond-both-colours)
    for (num, name, on_r, on_g) in multi_cond_both_colour_sites(w):
        sites.append((num, name, sorted(set(on_r) | set(on_g))))
    return sites


def _wild_reads(e):
    """Yield (red, green) selections of every wildcard (each/anything/everything) read."""
    if e.kind == "arith":
        ac = e.cb.get("arithmetic_conditions") or {}
        for side in ("first", "second"):
            if sigkey(ac.get(f"{side}_signal")) in WILD:
                yield _sel(ac.get(f"{side}_signal_networks"))
    elif e.kind == "decider":
        dc = e.cb.get("decider_conditions") or {}
        for c in dc.get("conditions") or []:
            if sigkey(c.get("first_signal")) in WILD:
                yield _sel(c.get("first_signal_networks"))
        for o in dc.get("outputs") or []:
            if sigkey(o.get("signal")) in WILD and o.get("copy_count_from_input", True):
                yield _sel(o.get("networks"))
    else:
        cc = e.cb.get("circuit_condition")
        if cc and sigkey(cc.get("first_signal")) in WILD:
            yield (True, True)


def bundle_crosstalk_sites(w: World, allowed: list[set], per_entity: dict | None = None,
                           anchors: bool = False):
    """Wildcard reads whose network can carry a set of signal types that is not contained in any
    bundle the program builds (`allowed` = static member-type sets of all bundle values, as
    signal keys).  Such a read sees a foreign signal: the bundle form of KF-crosstalk."""
    # emittable types per entity, to a fixed point (wildcard outputs forward their inputs)
    emit: dict[int, set] = {}
    for e in w.ents.values():
        em = _emits(e) if not e.emit else set(e.emit)
        emit[e.num] = set() if em is None else set(em)
    wild_out = {e.num for e in w.ents.values() if e.kind in ("arith", "decider") and _emits(e) is None}

    def net_types(e, sel):
        s: set = set()
        sr, sg = sel
        for c, on in ((1, sr), (2, sg)):
            n = e.net.get(c) if on else None
            if n is None:
                continue
            for (num, conn) in w.net_members.get(n, []):
                src = w.ents[num]
                if (src.kind == "const" and conn in (1, 2)) or (src.kind in ("arith", "decider") and conn in (3, 4)) or (src.emit and conn in (1, 2)):
                    s |= emit[num]
        return s

    for _ in range(len(w.ents) + 2):
        changed = False
        for num in wild_out:
            e = w.ents[num]
            s: set = set()
            for sel in _wild_reads(e):
                s |= net_types(e, sel)
            # a named second operand / output constant adds nothing to the member set
            if not s <= emit[num]:
                emit[num] |= s
                changed = True
        if not changed:
            break
    sites = []
    for e in w.ents.values():
        reads = list(_wild_reads(e))
        if (anchors and e.kind == "const" and not e.keys and "output anchor" in (e.desc or "")
                and per_entity is not None and e.num in per_entity):
            reads.append((True, True))
        for sel in reads:
            s = net_types(e, sel)
            if not s:
                continue
            if per_entity is not None and e.num in per_entity:
                if not s <= per_entity[e.num]:
                    sites.append((e.num, sorted(k[1] for k in s)))
            elif not any(s <= a for a in allowed):
                sites.append((e.num, sorted(k[1] for k in s)))
    return sites


def multi_cond_both_colour_sites(w: World):
    """KF-multi-cond-both-colours: a folded multi-condition decider reads its operands without a
    network selection; when the operand's signal arrives on the red AND on the green wire (two
    same-typed sources separated by colour) the row compares the sum."""
    net_emit: dict[int, list] = {}
    for e in w.ents.values():
        if e.kind == "const":
            conns = (1, 2)
        elif e.kind in ("arith", "decider"):
            conns = (3, 4)
        elif e.emit:
            conns = (1, 2)
        else:
            continue
        em = _emits(e) if not e.emit else None
        for c in conns:
            n = e.net.get(c)
            if n is not None:
                net_emit.setdefault(n, []).append((e.num, em))
    sites = []
    for e in w.ents.values():
        if e.kind != "decider":
            continue
        dc = e.cb.get("decider_conditions") or {}
        if len(dc.get("conditions") or []) < 2:
            continue
        for key, (sr, sg) in _reads(e):
            if not (sr and sg) or 1 not in e.net or 2 not in e.net:
                continue
            on_r = [n for n, em in net_emit.get(e.net[1], []) if em is None or key in em]
            on_g = [n for n, em in net_emit.get(e.net[2], []) if em is None or key in em]
            if on_r and on_g:
                sites.append((e.num, key[1], on_r, on_g))
    return sites
