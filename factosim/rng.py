"""Choice tape: every random decision of a run is one bounded integer drawn here.

Generating: draws come from random.Random(seed) and are recorded.
Replaying / shrinking: draws are read from a given tape (value mod bound; 0 past the end), so a
shorter or smaller tape is always a valid input and tends to produce a simpler case.
"""
from __future__ import annotations

import hashlib
import random


def derive(*parts) -> int:
    h = hashlib.sha256("/".join(str(p) for p in parts).encode()).digest()
    return int.from_bytes(h[:8], "big")


class Chooser:
    def __init__(self, seed: int | None = None, tape: list[int] | None = None):
        self.replay = tape is not None
        self.src = list(tape) if tape is not None else None
        self.rng = random.Random(seed) if tape is None else None
        self.tape: list[int] = []
        self.pos = 0

    def draw(self, n: int) -> int:
        """Integer in [0, n)."""
        if n <= 1:
            v = 0
            # still consume a slot so tapes stay aligned
            if self.replay:
                self.pos += 1
            self.tape.append(0)
            return v
        if self.replay:
            v = self.src[self.pos] % n if self.pos < len(self.src) else 0
            self.pos += 1
        else:
            v = self.rng.randrange(n)
        self.tape.append(v)
        return v

    def rint(self, lo: int, hi: int) -> int:
        """Integer in [lo, hi]; the tape value 0 maps to lo."""
        return lo + self.draw(hi - lo + 1)

    def chance(self, num: int, den: int) -> bool:
        """True with probability num/den; tape value 0 means False (the simpler branch)."""
        return self.draw(den) >= den - num

    def pick(self, seq):
        return seq[self.draw(len(seq))]

    def weighted(self, items):
        """items: list of (weight, value); tape value 0 picks the first item."""
        tot = sum(w for w, _ in items)
        r = self.draw(tot)
        for w, v in items:
            if r < w:
                return v
            r -= w
        return items[-1][1]

    def subset(self, seq, p_num: int, p_den: int):
        return [x for x in seq if self.chance(p_num, p_den)]

    def i32_biased(self, lo: int = -(1 << 31), hi: int = (1 << 31) - 1, around=()) -> int:
        """Boundary-biased integer in [lo, hi]."""
        cands = [0, 1, -1, 2, -2, 3, 7, 10, 100, -100, 255, 256, 1000, lo, hi, lo + 1, hi - 1,
                 (1 << 31) - 1, -(1 << 31), 65535, 65536, -65536, 46340, 46341, -46341]
        for a in around:
            cands += [a - 1, a, a + 1]
        cands = [c for c in cands if lo <= c <= hi]
        k = self.draw(10)
        if k < 5 and cands:
            return cands[self.draw(len(cands))]
        if k < 8:
            l2, h2 = max(lo, -50), min(hi, 50)
            if l2 <= h2:
                return self.rint(l2, h2)
        return self.rint(lo, hi)
