"""python -m factosim.show <replay.json> : re-run a replay in-process and dump the circuit."""
import json
import sys

from . import engine, lang, seam
from .dump import dump
from .world import World


def main():
    rep = json.load(open(sys.argv[1]))
    case = rep["case"] if "case" in rep else rep
    prop = rep.get("property") or case["prop"]
    seam.warm()
    mod = engine.prop_module(prop)
    res = mod.run_case(case)
    src = res.get("source")
    print(src if isinstance(src, str) else json.dumps(res.get("sources"), indent=1))
    print(json.dumps({k: v for k, v in res.items() if k not in ("source", "sources", "events")}, indent=1, default=str)[:3000])
    if "--dump" in sys.argv and isinstance(src, str):
        r = seam.compile_source(src, optimize=case["options"].get("optimize", True),
                                poles=case["options"].get("poles"),
                                retries=case["options"].get("retries", 3), plan=case.get("plan"))
        if r["ok"]:
            w = World(r["bp"])
            w.settle(60)
            print(dump(w))


if __name__ == "__main__":
    main()
