"""Choice-tape minimisation (the Hypothesis idea, re-implemented so that it is a pure function
of the tape and runs across the worker pool): delete spans, zero values, halve values.
A candidate is kept only if the same violation class on the same property persists."""
from __future__ import annotations

import itertools

_ids = itertools.count(1_000_000)


def _candidates(tape: list[int]):
    n = len(tape)
    # delete spans, large to small
    for k in (64, 32, 16, 8, 4, 2, 1):
        if k > n:
            continue
        step = max(1, k // 2)
        for i in range(0, n - k + 1, step):
            yield tape[:i] + tape[i + k:]
    # zero spans
    for k in (8, 4, 2):
        for i in range(0, n - k + 1, k):
            if any(tape[i:i + k]):
                yield tape[:i] + [0] * k + tape[i + k:]
    # zero / halve / decrement single values
    for i in range(n):
        v = tape[i]
        if v:
            yield tape[:i] + [0] + tape[i + 1:]
            if v > 1:
                yield tape[:i] + [v // 2] + tape[i + 1:]
                yield tape[:i] + [v - 1] + tape[i + 1:]


def shrink(pool, prop: str, tier: str, hashseed: int, tape: list[int], vclass: str,
           budget: int, exclude=None, batch: int = 16, gen_kw=None):
    """Returns (tape, answer) of the smallest failing case found within `budget` runs."""
    best_tape = list(tape)
    best_ans = None
    used = 0
    improved = True
    while improved and used < budget:
        improved = False
        gen = _candidates(best_tape)
        while used < budget:
            cands = list(itertools.islice(gen, batch))
            if not cands:
                break
            tasks = []
            for c in cands:
                tasks.append({"id": next(_ids), "prop": prop, "kind": "gen", "tape": c,
                              "tier": tier, "hashseed": hashseed, "exclude": exclude or [],
                              "gen_kw": gen_kw or {}, "want_case": False})
            answers = pool.run_all(tasks)
            used += len(tasks)
            hit = None
            for t in tasks:  # first candidate in generation order wins -> deterministic
                a = answers.get(t["id"])
                if not a:
                    continue
                r = a["result"]
                if r.get("status") == "violation" and r["violation"]["class"] == vclass:
                    # prefer the regenerated tape (normalised values)
                    hit = (a.get("tape") or t["tape"], a)
                    break
            if hit:
                new_tape, ans = hit
                if len(new_tape) < len(best_tape) or sum(new_tape) < sum(best_tape) or new_tape != best_tape:
                    if (len(new_tape), sum(new_tape)) < (len(best_tape), sum(best_tape)):
                        best_tape, best_ans = list(new_tape), ans
                        improved = True
                        break
    return best_tape, best_ans, used


# ------------------------------------------------------------------ structural minimisation
import copy

from .gen import in_claimed_domain  # noqa: E402


def _refs(e, acc):
    if isinstance(e, list):
        if e and e[0] in ("var", "read", "eout") and len(e) > 1 and isinstance(e[1], str):
            acc.add(e[1])
        if e and e[0] in ("projt",):
            acc.add(e[2])
        if e and e[0] in ("siglitt",):
            acc.add(e[1])
        if e and e[0] in ("write", "latch", "enable"):
            acc.add(e[1])
        for x in e:
            _refs(x, acc)
    elif isinstance(e, dict):
        for x in e.values():
            _refs(x, acc)


def _subexprs(e):
    """Direct sub-expressions an expression could be replaced by."""
    if not isinstance(e, list) or not e:
        return []
    t = e[0]
    if t == "bin":
        return [e[2], e[3]]
    if t in ("neg", "not", "proj", "projt"):
        return [e[1]]
    if t == "sel":
        return [e[2], e[1]]
    if t in ("siglit", "siglitt"):
        return []
    return []


def _expr_positions(e, path=()):
    """Yield (path, node) for every expression node inside e."""
    if isinstance(e, list) and e and isinstance(e[0], str):
        yield path, e
        for i, x in enumerate(e[1:], 1):
            if isinstance(x, list):
                yield from _expr_positions(x, path + (i,))


def _set_at(root, path, value):
    if not path:
        return value
    node = root
    for p in path[:-1]:
        node = node[p]
    node[path[-1]] = value
    return root


def _stmt_lists(case):
    """Keys of the case that hold statement lists."""
    return [k for k in ("stmts", "stmts_a", "stmts_b") if isinstance(case.get(k), list)]


def structural_candidates(case):
    # 1. simpler fault plan / options
    if case.get("plan") and case["plan"] != {"solver": {"mode": "det"}}:
        c = copy.deepcopy(case)
        c["plan"] = {"solver": {"mode": "det"}}
        yield c
        if case["plan"].get("route_fail"):
            c = copy.deepcopy(case)
            c["plan"].pop("route_fail", None)
            yield c
    if case.get("options") and case["options"] != {"optimize": True, "poles": None, "retries": 3}:
        for k, dflt in (("poles", None), ("optimize", True), ("retries", 3)):
            if case["options"].get(k) != dflt:
                c = copy.deepcopy(case)
                c["options"][k] = dflt
                yield c
    # 2. shorter history
    h = case.get("history")
    if isinstance(h, list) and h:
        for i in range(len(h) - 1, -1, -1):
            c = copy.deepcopy(case)
            del c["history"][i]
            yield c
        for i, st in enumerate(h):
            if isinstance(st, dict) and len(st) > 1:
                for k in list(st):
                    c = copy.deepcopy(case)
                    del c["history"][i][k]
                    yield c
    for key in _stmt_lists(case):
        stmts = case[key]
        # 3. drop statements nothing else refers to (last first)
        for i in range(len(stmts) - 1, -1, -1):
            s = stmts[i]
            name = s[2] if s[0] == "decl" else (s[1] if s[0] in ("mem", "place", "func") else None)
            others = set()
            for j, o in enumerate(stmts):
                if j != i:
                    _refs(o, others)
            if name is not None and name in others:
                continue
            c = copy.deepcopy(case)
            del c[key][i]
            if name is not None and isinstance(c.get("inputs"), list):
                c["inputs"] = [x for x in c["inputs"] if x.get("name") != name]
                if isinstance(c.get("history"), list):
                    for st in c["history"]:
                        if isinstance(st, dict):
                            st.pop(name, None)
            yield c
        # 4. hoist sub-expressions
        for i, s in enumerate(stmts):
            if s[0] != "decl" or s[1] not in ("Signal", "Bundle"):
                continue
            if any(x.get("name") == s[2] for x in case.get("inputs") or []):
                continue
            for path, node in list(_expr_positions(s[3])):
                for sub in _subexprs(node):
                    c = copy.deepcopy(case)
                    c[key][i][3] = _set_at(c[key][i][3], path, copy.deepcopy(sub))
                    yield c
        # 5. smaller literals
        input_names = {x.get("name") for x in case.get("inputs") or []}
        for i, s in enumerate(stmts):
            if s[0] != "decl" or s[2] in input_names:
                continue
            for path, node in list(_expr_positions(s[3])):
                if node[0] == "lit" and node[1] not in (0, 1):
                    for nv in (0, 1, node[1] // 2):
                        c = copy.deepcopy(case)
                        tgt = c[key][i][3]
                        for p in path:
                            tgt = tgt[p]
                        tgt[1] = nv
                        if len(tgt) > 2:
                            tgt[2] = 10
                        yield c


def structural(pool, prop: str, case: dict, vclass: str, budget: int, batch: int = 16):
    best = case
    best_ans = None
    used = 0
    improved = True
    hsd = case.get("hashseed") or 0
    while improved and used < budget:
        improved = False
        gen = structural_candidates(best)
        while used < budget:
            cands = list(itertools.islice(gen, batch))
            if not cands:
                break
            # stay inside the claimed domain (no constant folding on which compiler and run-time
            # arithmetic disagree): a candidate outside it would fail for an unclaimed reason
            cands = [c for c in cands if all(in_claimed_domain(c[k]) for k in _stmt_lists(c))]
            if not cands:
                continue
            tasks = [{"id": next(_ids), "prop": prop, "kind": "case", "case": c,
                      "hashseed": hsd, "want_case": True} for c in cands]
            answers = pool.run_all(tasks)
            used += len(tasks)
            for t in tasks:
                a = answers.get(t["id"])
                if not a:
                    continue
                r = a["result"]
                if r.get("status") == "violation" and r["violation"]["class"] == vclass:
                    best, best_ans = t["case"], a
                    improved = True
                    break
            if improved:
                break
    return best, best_ans, used
