"""Fresh-process reference compiles for C19 (started with PYTHONHASHSEED=0, default solver mode).
Each job runs in its own fork()ed child of the freshly started interpreter, so no job can
see what another compiled.  stdin: JSON list of {"src", "options"}; stdout: JSON list of
{"ok", "stage", "error", "canon"}."""
import json
import os
import sys


def _one(j):
    from . import canon, seam

    o = j.get("options") or {}
    r = seam.compile_source(j["src"], optimize=o.get("optimize", True), poles=o.get("poles"),
                            retries=o.get("retries", 3), plan={"solver": {"mode": "det"}},
                            source_name=j.get("source_name", "<string>"))
    ent = {"ok": r["ok"], "stage": r["stage"], "error": (r["error"] or "")[:300], "crash": r["crash"]}
    if r["ok"]:
        ent["canon"] = canon.canonical(r["bp"])
    return ent


def main():
    from . import seam

    seam.warm()
    jobs = json.load(sys.stdin)
    out = []
    for j in jobs:
        rfd, wfd = os.pipe()
        pid = os.fork()
        if pid == 0:
            os.close(rfd)
            try:
                data = json.dumps(_one(j)).encode()
            except BaseException as exc:  # noqa: BLE001
                data = json.dumps({"ok": False, "stage": "harness", "error": repr(exc), "crash": True}).encode()
            with os.fdopen(wfd, "wb") as fh:
                fh.write(data)
            os._exit(0)
        os.close(wfd)
        with os.fdopen(rfd, "rb") as fh:
            data = fh.read()
        os.waitpid(pid, 0)
        out.append(json.loads(data.decode()))
    json.dump(out, sys.stdout)


if __name__ == "__main__":
    main()
