"""Fresh-process reference compiles for C19 (started with PYTHONHASHSEED=0, default solver mode).
Each job runs in its own fork()ed child of the freshly started interpreter, so no job can
see what another compiled.  stdin: JSON list of {"src", "options"}; stdout: JSON list of
{"ok", "stage", "error", "canon"}."""
import json
import os
import sys


def _one(j):
    from . import canon, seam

    o = j.get("options") or {}
    r = seam.compile_source(j["src"], optimize=o.get("optimize", True), poles=o.get("poles"),
                            retries=o.get("retries", 3), plan={"solver": {"mode": "det"}},
                            source_name=j.get("source_name", "<string>"))
    ent = {"ok": r["ok"], "stage": r["stage"], "error": (r["error"] or "")[:300], "crash": r["crash"]}
    if r["ok"]:
        ent["canon"] = canon.canonical(r["bp"])
    return ent


def _run_jobs(jobs: list) -> list:
    out = []
    for j in jobs:
        rfd, wfd = os.pipe()
        pid = os.fork()
        if pid == 0:
            os.close(rfd)
            try:
                data = json.dumps(_one(j)).encode()
            except BaseException as exc:  # noqa: BLE001
                data = json.dumps({"ok": False, "stage": "harness", "error": repr(exc), "crash": True}).encode()
            with os.fdopen(wfd, "wb") as fh:
                fh.write(data)
            os._exit(0)
        os.close(wfd)
        with os.fdopen(rfd, "rb") as fh:
            data = fh.read()
        os.waitpid(pid, 0)
        out.append(json.loads(data.decode()))
    return out


def main():
    from . import seam

    seam.warm()
    if "--serve" in sys.argv:
        # persistent form: one request per line {"id", "jobs"}, one answer per line {"id", "out"}.  The
        # server itself never compiles anything (every job runs in a fork()ed child), so each job
        # still starts from the pristine post-import state of a hash-seed-0 interpreter.
        sys.stdout.write(json.dumps({"ready": True}) + "\n")
        sys.stdout.flush()
        for line in sys.stdin:
            line = line.strip()
            if not line:
                continue
            req = json.loads(line)
            sys.stdout.write(json.dumps({"id": req["id"], "out": _run_jobs(req["jobs"])}) + "\n")
            sys.stdout.flush()
        return
    json.dump(_run_jobs(json.load(sys.stdin)), sys.stdout)


# ----------------------------------------------------------------------------- client side
# A worker (factosim.engine.worker_main) starts one server before it forks a run of a property
# that needs references; the forked run inherits the pipes.  One run at a time per worker, so the
# pipes are never shared.  A run killed in the middle of a request leaves a stale answer behind:
# the worker restarts the server after a timeout, and answers carry the request id anyway.
_SERVER = None
_REQ = 0


def start_server(env: dict, py: str, cwd: str) -> None:
    global _SERVER
    import subprocess

    if _SERVER is not None and _SERVER.poll() is None:
        return
    _SERVER = subprocess.Popen([py, "-m", "factosim.refcompile", "--serve"], stdin=subprocess.PIPE,
                               stdout=subprocess.PIPE, env=env, cwd=cwd, text=True, bufsize=1)
    first = _SERVER.stdout.readline()
    if '"ready"' not in first:
        stop_server()


def stop_server() -> None:
    global _SERVER
    if _SERVER is not None:
        try:
            _SERVER.kill()
            _SERVER.wait(timeout=10)
        except Exception:
            pass
    _SERVER = None


def request(jobs: list):
    """Answers through the inherited server, or None when there is none (caller falls back)."""
    global _REQ
    if _SERVER is None or _SERVER.poll() is not None:
        return None
    _REQ += 1
    rid = f"{os.getpid()}-{_REQ}"
    _SERVER.stdin.write(json.dumps({"id": rid, "jobs": jobs}) + "\n")
    _SERVER.stdin.flush()
    while True:
        line = _SERVER.stdout.readline()
        if not line:
            raise RuntimeError("reference server died")
        ans = json.loads(line)
        if ans.get("id") == rid:
            return ans["out"]


if __name__ == "__main__":
    main()
