"""Prototype facts read from the game data shipped with draftsman (not from the compiler)."""
from __future__ import annotations

import functools

CONNECTOR_COLOUR = {1: "red", 2: "green", 3: "red", 4: "green", 5: "copper", 6: "copper"}

_COMB_TYPES = {
    "arithmetic-combinator": "arith",
    "decider-combinator": "decider",
    "selector-combinator": "selector",
    "constant-combinator": "const",
}


@functools.lru_cache(maxsize=None)
def _raw(name: str) -> dict:
    from draftsman.data import entities

    return entities.raw.get(name) or {}


@functools.lru_cache(maxsize=None)
def proto_type(name: str) -> str:
    return _raw(name).get("type", "")


@functools.lru_cache(maxsize=None)
def kind_of(name: str) -> str:
    t = proto_type(name)
    if t in _COMB_TYPES:
        return _COMB_TYPES[t]
    if t == "electric-pole":
        return "pole"
    return "other"


@functools.lru_cache(maxsize=None)
def circuit_reach(name: str) -> float | None:
    r = _raw(name)
    for k in ("circuit_wire_max_distance", "maximum_wire_distance", "wire_max_distance"):
        v = r.get(k)
        if v:
            return float(v)
    return None


@functools.lru_cache(maxsize=None)
def copper_reach(name: str) -> float | None:
    r = _raw(name)
    for k in ("maximum_wire_distance", "wire_max_distance"):
        v = r.get(k)
        if v:
            return float(v)
    return None


@functools.lru_cache(maxsize=None)
def supply_area(name: str) -> float | None:
    v = _raw(name).get("supply_area_distance")
    return float(v) if v else None


@functools.lru_cache(maxsize=None)
def consumes_electricity(name: str) -> bool:
    r = _raw(name)
    es = r.get("energy_source")
    if isinstance(es, dict) and es.get("type") == "electric":
        return True
    return False


@functools.lru_cache(maxsize=None)
def connectors_of(name: str) -> frozenset:
    k = kind_of(name)
    t = proto_type(name)
    if k in ("arith", "decider", "selector"):
        return frozenset({1, 2, 3, 4})
    if k == "pole":
        return frozenset({1, 2, 5})
    if t == "power-switch":
        return frozenset({1, 2, 5, 6})
    if circuit_reach(name) is not None or k == "const":
        return frozenset({1, 2})
    return frozenset()


@functools.lru_cache(maxsize=None)
def collision_box(name: str):
    cb = _raw(name).get("collision_box")
    if not cb:
        return None
    (x1, y1), (x2, y2) = cb
    return (float(x1), float(y1), float(x2), float(y2))


def collision_rect(name: str, x: float, y: float, direction: int = 0):
    """Axis-aligned collision rectangle at a blueprint position (16-way directions; only
    multiples of 4 are handled, others return None = not checked)."""
    cb = collision_box(name)
    if cb is None:
        return None
    x1, y1, x2, y2 = cb
    d = direction % 16
    if d % 4:
        return None
    for _ in range(d // 4):
        # rotate 90 degrees clockwise: (x, y) -> (-y, x)
        x1, y1, x2, y2 = -y2, x1, -y1, x2
    return (x + x1, y + y1, x + x2, y + y2)


@functools.lru_cache(maxsize=None)
def tile_size(name: str, direction: int = 0) -> tuple[int, int]:
    """Tile footprint (w, h) derived from the collision box (ceil)."""
    import math

    r = _raw(name)
    if r.get("tile_width") and r.get("tile_height"):
        w, h = int(r["tile_width"]), int(r["tile_height"])
    else:
        cb = collision_box(name)
        if cb is None:
            return (1, 1)
        w = max(1, math.ceil(cb[2] - cb[0]))
        h = max(1, math.ceil(cb[3] - cb[1]))
    if (direction % 16) // 4 % 2:
        w, h = h, w
    return (w, h)


@functools.lru_cache(maxsize=None)
def signal_type(name: str) -> str:
    """Blueprint 'type' of a signal name the way the game resolves it."""
    from draftsman.data import fluids, items, signals

    if name in items.raw:
        return "item"
    if name in fluids.raw:
        return "fluid"
    t = signals.raw.get(name, {}).get("type")
    if t == "virtual-signal":
        return "virtual"
    return "virtual"


def sk(name: str) -> tuple[str, str]:
    return (signal_type(name), name)
