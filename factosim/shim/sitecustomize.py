"""Rides into CLI subprocesses through PYTHONPATH: makes the layout solver deterministic there too.
Only active when FACTOMPILER_VERIF=1 (set by the C07 check for its own child processes)."""
import os

if os.environ.get("FACTOMPILER_VERIF") == "1" and os.environ.get("FACTOSIM_SHIM") == "1":
    try:
        import sys

        sys.path.insert(0, os.environ.get("FACTOSIM_VERIF_DIR", "/verif"))
        from factosim import seam

        seam.install(quiet_logging=False)
        seam.set_default_plan({"solver": {"mode": "det", "seed": 0, "budget": 0.05}})
    except Exception as exc:  # never break the CLI because of the shim
        sys.stderr.write(f"factosim shim failed: {exc}\n")
