"""Factorio 2.0 circuit-network model: the simulated world every executed-circuit check runs in.

Input is the blueprint JSON exactly as compile_dsl_source(..., use_json=True) / the CLI
prints it.  Draftsman omits defaults, so the loader applies them.

Tick rule: out[t+1] = F(net[t]); net[t][n] = sum of out[t][e] over emitters e attached to n,
wrapped to int32.  Constant combinators (and environment-driven emitters: chests, tanks) emit
their configured value at every tick; every combinator output is empty at tick 0.

Anything the model does not cover raises ModelGap (never a violation).  Wires that name a
connector an entity does not have, or whose two ends differ in colour, are recorded in
World.defects (a structural defect of the blueprint, used by C08) and are not simulated.
"""
from __future__ import annotations

from . import gamedata

I32_MASK = 0xFFFFFFFF


class ModelGap(Exception):
    """The blueprint uses something the world model does not implement."""


def i32(x: int) -> int:
    x &= I32_MASK
    return x - 0x100000000 if x & 0x80000000 else x


def arith(op: str, a: int, b: int) -> int:
    if op == "+":
        return i32(a + b)
    if op == "-":
        return i32(a - b)
    if op == "*":
        return i32(a * b)
    if op == "/":
        if b == 0:
            return 0
        q = abs(a) // abs(b)
        return i32(-q if (a < 0) != (b < 0) else q)
    if op == "%":
        if b == 0:
            return 0
        r = abs(a) % abs(b)
        return i32(-r if a < 0 else r)
    if op == "^":
        if b < 0:
            return 0
        if b > 64:
            # repeated wrapped multiplication; exponents this large are outside generated domains
            return i32(pow(a, b, 1 << 32))
        r = 1
        for _ in range(b):
            r = i32(r * a)
        return r
    if op == "<<":
        return i32(a << (b & 31))
    if op == ">>":
        return i32(a >> (b & 31))
    if op == "AND":
        return i32(a & b)
    if op == "OR":
        return i32(a | b)
    if op == "XOR":
        return i32(a ^ b)
    raise ModelGap(f"arithmetic operation {op!r}")


_CMP = {
    "=": lambda a, b: a == b,
    "==": lambda a, b: a == b,
    ">": lambda a, b: a > b,
    "<": lambda a, b: a < b,
    "≥": lambda a, b: a >= b,
    ">=": lambda a, b: a >= b,
    "≤": lambda a, b: a <= b,
    "<=": lambda a, b: a <= b,
    "≠": lambda a, b: a != b,
    "!=": lambda a, b: a != b,
}


def compare(op: str, a: int, b: int) -> bool:
    try:
        return _CMP[op](a, b)
    except KeyError:
        raise ModelGap(f"comparator {op!r}") from None


EACH = ("virtual", "signal-each")
ANY = ("virtual", "signal-anything")
EVERY = ("virtual", "signal-everything")
WILDCARDS = (EACH, ANY, EVERY)


def sigkey(d) -> tuple[str, str] | None:
    """Signal identity as Factorio sees it: (type, name); JSON omits type for items."""
    if d is None:
        return None
    if isinstance(d, str):
        raise ModelGap(f"bare signal string {d!r}")
    name = d.get("name")
    if name is None:
        return None
    q = d.get("quality")
    if q not in (None, "normal"):
        raise ModelGap("signal quality")
    return (d.get("type") or "item", name)


def _sel(nets: dict | None) -> tuple[bool, bool]:
    if nets is None:
        return (True, True)
    return (bool(nets.get("red", True)), bool(nets.get("green", True)))


def add_into(dst: dict, src: dict) -> None:
    for k, v in src.items():
        nv = i32(dst.get(k, 0) + v)
        if nv:
            dst[k] = nv
        elif k in dst:
            del dst[k]


class Ent:
    __slots__ = (
        "num", "name", "kind", "x", "y", "direction", "desc", "cb", "raw", "out", "net",
        "const", "emit", "keys",
    )

    def __init__(self, raw: dict):
        self.raw = raw
        self.num = raw["entity_number"]
        self.name = raw["name"]
        self.x = raw["position"]["x"]
        self.y = raw["position"]["y"]
        self.direction = raw.get("direction", 0)
        self.desc = raw.get("player_description", "") or ""
        self.cb = raw.get("control_behavior") or {}
        self.kind = gamedata.kind_of(self.name)
        self.out: dict = {}  # current combinator output
        self.net: dict[int, int] = {}  # connector -> network id
        self.const: dict | None = None  # constant combinator sections folded to a map
        self.emit: dict = {}  # environment-driven emission (containers, tanks)
        self.keys: list = []  # constant combinator: signal keys of its filters, in order


class World:
    def __init__(self, bp: dict):
        if "blueprint" in bp:
            bp = bp["blueprint"]
        self.bp = bp
        self.ents: dict[int, Ent] = {}
        self.defects: list[str] = []
        self.tick = 0
        for raw in bp.get("entities", []):
            e = Ent(raw)
            if e.num in self.ents:
                self.defects.append(f"duplicate entity_number {e.num}")
            self.ents[e.num] = e
            if e.kind == "const":
                e.const = self._fold_sections(e)
        self._build_networks(bp.get("wires", []))
        self.combs = [e for e in self.ents.values() if e.kind in ("arith", "decider")]
        for e in self.ents.values():
            if e.kind == "selector":
                raise ModelGap("selector combinator")
        self._nets_cache: dict[int, dict] | None = None

    # ------------------------------------------------------------------ loading
    def _fold_sections(self, e: Ent) -> dict:
        cb = e.cb
        if cb.get("is_on") is False:
            return {}
        out: dict = {}
        secs = (cb.get("sections") or {}).get("sections") or []
        for s in secs:
            if s.get("active") is False:
                continue
            mult = s.get("multiplier", 1)
            if mult != 1:
                raise ModelGap("section multiplier")
            for f in s.get("filters") or []:
                k = sigkey(f)
                if k is None:
                    continue
                e.keys.append(k)
                add_into(out, {k: i32(f.get("count", 0))})
        return out

    def _build_networks(self, wires: list) -> None:
        parent: dict[tuple[int, int], tuple[int, int]] = {}

        def find(a):
            while parent.setdefault(a, a) != a:
                parent[a] = parent[parent[a]]
                a = parent[a]
            return a

        self.wires = []
        self.copper = []
        for w in wires:
            if len(w) != 4:
                self.defects.append(f"malformed wire {w}")
                continue
            e1, c1, e2, c2 = w
            bad = False
            for en, cn in ((e1, c1), (e2, c2)):
                ent = self.ents.get(en)
                if ent is None:
                    self.defects.append(f"wire {w} names missing entity {en}")
                    bad = True
                elif cn not in gamedata.connectors_of(ent.name):
                    self.defects.append(
                        f"wire {w}: entity {en} ({ent.name}) has no connector {cn}"
                    )
                    bad = True
            if bad:
                continue
            col1, col2 = gamedata.CONNECTOR_COLOUR.get(c1), gamedata.CONNECTOR_COLOUR.get(c2)
            if col1 != col2:
                self.defects.append(f"wire {w} joins {col1} to {col2}")
                continue
            if col1 == "copper":
                self.copper.append((e1, e2))
                continue
            self.wires.append((e1, c1, e2, c2, col1))
            a, b = find((e1, c1)), find((e2, c2))
            if a != b:
                parent[a] = b
        ids: dict[tuple[int, int], int] = {}
        for key in list(parent):
            r = find(key)
            nid = ids.setdefault(r, len(ids))
            self.ents[key[0]].net[key[1]] = nid
        self.n_nets = len(ids)
        # members per network: list of (entnum, connector)
        self.net_members: dict[int, list[tuple[int, int]]] = {}
        for e in self.ents.values():
            for c, n in e.net.items():
                self.net_members.setdefault(n, []).append((e.num, c))

    # ------------------------------------------------------------------ environment
    def set_const(self, num: int, values: dict) -> None:
        """Override what a constant combinator emits (the program's inputs)."""
        e = self.ents[num]
        if e.kind != "const":
            raise ValueError("not a constant combinator")
        e.const = {k: i32(v) for k, v in values.items() if i32(v)}
        self._nets_cache = None

    def set_emit(self, num: int, values: dict) -> None:
        """Set what an environment-driven entity (chest, tank) reports on its circuit connector."""
        e = self.ents[num]
        e.emit = {k: i32(v) for k, v in values.items() if i32(v)}
        self._nets_cache = None

    # ------------------------------------------------------------------ reading
    def net_values(self) -> dict[int, dict]:
        if self._nets_cache is not None:
            return self._nets_cache
        vals: dict[int, dict] = {}
        for e in self.ents.values():
            if e.kind == "const":
                src, conns = e.const, (1, 2)
            elif e.kind in ("arith", "decider"):
                src, conns = e.out, (3, 4)
            elif e.emit:
                src, conns = e.emit, (1, 2)
            else:
                continue
            if not src:
                continue
            for c in conns:
                n = e.net.get(c)
                if n is not None:
                    add_into(vals.setdefault(n, {}), src)
        self._nets_cache = vals
        return vals

    def inputs_of(self, e: Ent, vals=None) -> tuple[dict, dict]:
        vals = self.net_values() if vals is None else vals
        r = vals.get(e.net.get(1), {}) if 1 in e.net else {}
        g = vals.get(e.net.get(2), {}) if 2 in e.net else {}
        return r, g

    def read(self, num: int, side: str = "input") -> dict:
        """Sum of red and green networks on the entity's input (or output) connectors."""
        e = self.ents[num]
        vals = self.net_values()
        conns = (1, 2) if side == "input" else (3, 4)
        tot: dict = {}
        for c in conns:
            n = e.net.get(c)
            if n is not None:
                add_into(tot, vals.get(n, {}))
        return tot

    def condition_of(self, num: int) -> bool | None:
        """Truth of the entity's circuit (enable) condition on its real networks."""
        e = self.ents[num]
        cb = e.cb
        cond = cb.get("circuit_condition")
        if cond is None:
            return None
        r, g = self.inputs_of(e)
        tot = dict(r)
        add_into(tot, g)
        return self._simple_condition(cond, tot)

    def _simple_condition(self, cond: dict, tot: dict) -> bool:
        first = sigkey(cond.get("first_signal"))
        if first is None:
            return False
        op = cond.get("comparator", "<")
        second = sigkey(cond.get("second_signal"))
        if second is not None:
            if second in WILDCARDS:
                raise ModelGap("wildcard as second signal")
            rhs = tot.get(second, 0)
        else:
            rhs = i32(cond.get("constant", 0))
        if first == EACH:
            raise ModelGap("each in entity condition")
        if first == ANY:
            return any(compare(op, v, rhs) for v in tot.values())
        if first == EVERY:
            return all(compare(op, v, rhs) for v in tot.values())
        return compare(op, tot.get(first, 0), rhs)

    # ------------------------------------------------------------------ stepping
    def step(self) -> bool:
        """Advance one tick. Returns True if any combinator output changed."""
        vals = self.net_values()
        new = []
        for e in self.combs:
            r, g = self.inputs_of(e, vals)
            if e.kind == "arith":
                o = self._eval_arith(e, r, g)
            else:
                o = self._eval_decider(e, r, g)
            new.append(o)
        changed = False
        for e, o in zip(self.combs, new):
            if o != e.out:
                changed = True
                e.out = o
        self.tick += 1
        if changed:
            self._nets_cache = None
        return changed

    def settle(self, max_ticks: int) -> int | None:
        """Step until a fixed point; returns ticks taken, or None if not settled in max_ticks."""
        for i in range(max_ticks + 1):
            if not self.step():
                return i
        return None

    def run(self, ticks: int) -> None:
        for _ in range(ticks):
            self.step()

    def snapshot(self) -> tuple:
        return tuple(tuple(sorted(e.out.items())) for e in self.combs)

    # ------------------------------------------------------------------ combinators
    @staticmethod
    def _pick(sig, nets, r: dict, g: dict) -> int:
        sr, sg = nets
        v = 0
        if sr:
            v += r.get(sig, 0)
        if sg:
            v += g.get(sig, 0)
        return i32(v)

    @staticmethod
    def _merged(nets, r: dict, g: dict) -> dict:
        sr, sg = nets
        if sr and sg:
            if not g:
                return r
            if not r:
                return g
            tot = dict(r)
            add_into(tot, g)
            return tot
        if sr:
            return r
        if sg:
            return g
        return {}

    def _eval_arith(self, e: Ent, r: dict, g: dict) -> dict:
        ac = e.cb.get("arithmetic_conditions")
        if ac is None:
            return {}
        op = ac.get("operation", "*")
        out_sig = sigkey(ac.get("output_signal"))
        first = sigkey(ac.get("first_signal"))
        second = sigkey(ac.get("second_signal"))
        n1 = _sel(ac.get("first_signal_networks"))
        n2 = _sel(ac.get("second_signal_networks"))
        if out_sig is None:
            return {}
        if first in (ANY, EVERY) or second in (ANY, EVERY) or out_sig in (ANY, EVERY):
            raise ModelGap("anything/everything in arithmetic combinator")
        if first == EACH and second == EACH:
            raise ModelGap("each on both operands")
        if first == EACH or second == EACH:
            each_nets = n1 if first == EACH else n2
            members = self._merged(each_nets, r, g)
            if first == EACH:
                if second is not None:
                    other = self._pick(second, n2, r, g)
                else:
                    other = i32(ac.get("second_constant", 0))
            else:
                if first is not None:
                    other = self._pick(first, n1, r, g)
                else:
                    other = i32(ac.get("first_constant", 0))
            out: dict = {}
            for s, v in members.items():
                res = arith(op, v, other) if first == EACH else arith(op, other, v)
                if not res:
                    continue
                if out_sig == EACH:
                    out[s] = res
                else:
                    nv = i32(out.get(out_sig, 0) + res)
                    if nv:
                        out[out_sig] = nv
                    else:
                        out.pop(out_sig, None)
            return out
        if out_sig == EACH:
            raise ModelGap("each output without each input")
        a = self._pick(first, n1, r, g) if first is not None else i32(ac.get("first_constant", 0))
        b = self._pick(second, n2, r, g) if second is not None else i32(ac.get("second_constant", 0))
        res = arith(op, a, b)
        return {out_sig: res} if res else {}

    def _eval_decider(self, e: Ent, r: dict, g: dict) -> dict:
        dc = e.cb.get("decider_conditions")
        if dc is None:
            return {}
        conds = dc.get("conditions") or []
        outs = dc.get("outputs") or []
        if not conds or not outs:
            return {}
        parsed = []
        each_nets = None
        for c in conds:
            first = sigkey(c.get("first_signal"))
            second = sigkey(c.get("second_signal"))
            n1 = _sel(c.get("first_signal_networks"))
            n2 = _sel(c.get("second_signal_networks"))
            if second in (ANY, EVERY):
                raise ModelGap("anything/everything as second operand")
            if first == EACH or second == EACH:
                nets = n1 if first == EACH else n2
                if each_nets is None:
                    each_nets = nets
                elif each_nets != nets:
                    # iterate over the union in that case
                    each_nets = (each_nets[0] or nets[0], each_nets[1] or nets[1])
            parsed.append(
                (first, n1, second, n2, i32(c.get("constant", 0)), c.get("comparator", "<"),
                 c.get("compare_type", "or"))
            )

        def cond_true(p, each_sig) -> bool:
            first, n1, second, n2, const, op, _ct = p
            if first is None:
                return False
            if second is not None:
                rhs = self._pick(each_sig if second == EACH else second, n2, r, g)
            else:
                rhs = const
            if first == ANY:
                return any(compare(op, v, rhs) for v in self._merged(n1, r, g).values())
            if first == EVERY:
                return all(compare(op, v, rhs) for v in self._merged(n1, r, g).values())
            if first == EACH:
                return compare(op, self._pick(each_sig, n1, r, g), rhs)
            return compare(op, self._pick(first, n1, r, g), rhs)

        def whole(each_sig) -> bool:
            # AND binds tighter than OR; compare_type of a row says how it joins the previous one
            group = True
            started = False
            for p in parsed:
                if started and p[6] == "or":
                    if group:
                        return True
                    group = True
                started = True
                if group and not cond_true(p, each_sig):
                    group = False
            return group

        out: dict = {}

        def emit(sig, val):
            nv = i32(out.get(sig, 0) + val)
            if nv:
                out[sig] = nv
            else:
                out.pop(sig, None)

        if each_nets is not None:
            members = self._merged(each_nets, r, g)
            passing = [s for s in members if whole(s)]
            for o in outs:
                osig = sigkey(o.get("signal"))
                if osig is None:
                    continue
                copy = o.get("copy_count_from_input", True)
                on = _sel(o.get("networks"))
                if osig == EACH:
                    for s in passing:
                        emit(s, self._pick(s, on, r, g) if copy else i32(o.get("constant", 1)))
                elif osig in (ANY, EVERY):
                    raise ModelGap("anything/everything output with each condition")
                else:
                    for s in passing:
                        emit(osig, self._pick(s, on, r, g) if copy else i32(o.get("constant", 1)))
            return out

        if not whole(None):
            return out
        for o in outs:
            osig = sigkey(o.get("signal"))
            if osig is None:
                continue
            copy = o.get("copy_count_from_input", True)
            on = _sel(o.get("networks"))
            if osig == EACH:
                raise ModelGap("each output without each condition")
            if osig == EVERY:
                src = self._merged(on, r, g)
                for s, v in src.items():
                    emit(s, v if copy else i32(o.get("constant", 1)))
            elif osig == ANY:
                raise ModelGap("anything as decider output")
            else:
                emit(osig, self._pick(osig, on, r, g) if copy else i32(o.get("constant", 1)))
        return out


def names(d: dict) -> dict[str, int]:
    """Drop the type part of signal keys (for printing)."""
    return {k[1]: v for k, v in sorted(d.items())}
