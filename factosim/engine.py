"""Execution engine: master -> worker processes (one interpreter per PYTHONHASHSEED value,
warmed once) -> fork() per run.  One run = one case executed from a pristine post-import state.

Results are collected by task id, so worker count and completion order never matter.
A run that exceeds its wall limit is killed and reported as HARNESS-TIMEOUT (never exit 0,
never a violation).
"""
from __future__ import annotations

import importlib
import json
import os
import queue
import select
import signal
import subprocess
import sys
import threading
import time
import traceback

VERIF = os.path.dirname(os.path.dirname(os.path.abspath(__file__)))
PY = os.environ.get("FACTOSIM_PYTHON", "/venv/bin/python")
# Wall limit of ONE run (a hang guard, not a performance oracle): generous, because a loaded
# machine stretches compile-heavy runs (C07 starts up to 24 real CLI processes per run, C08/C09
# thorough compile programs with several hundred entities).  A property module may set
# RUN_TIMEOUT_S = {"quick": .., "thorough": ..}.
RUN_TIMEOUT = float(os.environ.get("FACTOSIM_RUN_TIMEOUT", "300"))


def _run_limit(task: dict) -> float:
    try:
        per = getattr(prop_module(task["prop"]), "RUN_TIMEOUT_S", None) or {}
        return float(per.get(task.get("tier", "quick"), RUN_TIMEOUT))
    except Exception:
        return RUN_TIMEOUT


def prop_module(prop: str):
    return importlib.import_module(f"factosim.props.{prop.lower()}")


# ----------------------------------------------------------------------------- child side
def execute_task(task: dict) -> dict:
    """Runs in the forked child. task: {id, prop, kind: gen|case, seed|tape|case, tier, ...}"""
    from .rng import Chooser

    mod = prop_module(task["prop"])
    out: dict = {"id": task["id"]}
    if task["kind"] == "gen":
        ch = Chooser(seed=task.get("seed"), tape=task.get("tape"))
        case = mod.gen_case(ch, task.get("tier", "quick"), **(task.get("gen_kw") or {}))
        case["hashseed"] = task.get("hashseed")
        out["tape"] = ch.tape
    else:
        case = task["case"]
    if task["kind"] == "gen" or "exclude" in task:
        case["exclude"] = list(task.get("exclude") or [])
    res = None
    if True:
        # A generated program must stay inside the claimed domain: no constant-only sub-expression
        # on which the compiler's folders and the run-time arithmetic disagree (C11, not claimed).
        # An escape is a generator defect, counted as `invalid`, never reported as a violation.
        from .gen import in_claimed_domain

        lists = [case.get(k) for k in ("stmts",)] + [sub.get("stmts") for sub in (case.get("P"), case.get("Q"))
                                                     if isinstance(sub, dict)]
        if any(isinstance(l_, list) and not in_claimed_domain(l_) for l_ in lists):
            res = {"status": "invalid", "reason": "outside-claimed-domain", "probes": {}, "fired": {},
                   "ticks": 0, "compared": 0}
    if res is None:
        res = mod.run_case(case)
    out["result"] = res
    import hashlib

    out["digest"] = hashlib.sha256(json.dumps(
        {k: res.get(k) for k in ("status", "violation", "probes", "fired", "ticks", "compared", "sig",
                                 "events", "refusal", "source", "sources")},
        sort_keys=True, default=str).encode()).hexdigest()[:16]
    if res.get("status") in ("violation",) or task.get("want_case"):
        out["case"] = case
    return out


def worker_main() -> None:
    """Persistent worker: reads one JSON task per line on stdin, answers one JSON line."""
    import faulthandler

    faulthandler.enable()
    sys.path.insert(0, VERIF)
    from . import seam

    seam.warm()
    sys.stdout.write(json.dumps({"ready": True, "hashseed": os.environ.get("PYTHONHASHSEED")}) + "\n")
    sys.stdout.flush()
    for line in sys.stdin:
        line = line.strip()
        if not line:
            continue
        task = json.loads(line)
        if task.get("quit"):
            break
        limit = _run_limit(task)
        uses_ref = False
        try:
            pm = prop_module(task["prop"])
            if getattr(pm, "REF_SERVER", False):
                from . import refcompile

                refcompile.start_server(pm.ref_env(), PY, VERIF)
                uses_ref = True
        except Exception:
            uses_ref = False        # the run falls back to a one-shot reference process
        rfd, wfd = os.pipe()
        pid = os.fork()
        if pid == 0:
            # ---- child
            os.close(rfd)
            try:
                try:
                    faulthandler.dump_traceback_later(limit - 5, exit=False)
                    out = execute_task(task)
                except BaseException as exc:  # harness trouble, reported apart from violations
                    out = {"id": task["id"], "result": {
                        "status": "harness-error",
                        "error": f"{type(exc).__name__}: {exc}",
                        "trace": traceback.format_exc()[-3000:]}}
                data = json.dumps(out, default=str).encode()
                with os.fdopen(wfd, "wb") as fh:
                    fh.write(data)
            finally:
                os._exit(0)
        # ---- parent
        os.close(wfd)
        chunks = []
        deadline = time.monotonic() + limit
        timed_out = False
        while True:
            left = deadline - time.monotonic()
            if left <= 0:
                timed_out = True
                break
            r, _, _ = select.select([rfd], [], [], min(left, 1.0))
            if r:
                b = os.read(rfd, 1 << 16)
                if not b:
                    break
                chunks.append(b)
        os.close(rfd)
        if timed_out:
            try:
                os.kill(pid, signal.SIGKILL)
            except OSError:
                pass
        os.waitpid(pid, 0)
        if timed_out and uses_ref:
            from . import refcompile

            refcompile.stop_server()      # it may still be busy with the killed run's request
        if timed_out:
            ans = {"id": task["id"], "result": {"status": "harness-timeout"}}
        else:
            try:
                ans = json.loads(b"".join(chunks).decode())
            except Exception:
                ans = {"id": task["id"], "result": {"status": "harness-error",
                                                     "error": "child died without an answer"}}
        sys.stdout.write(json.dumps(ans) + "\n")
        sys.stdout.flush()


# ----------------------------------------------------------------------------- master side
class Pool:
    """Worker processes grouped by hash seed."""

    def __init__(self, hashseeds: list[int], workers: int):
        self.hashseeds = list(hashseeds)
        self.queues: dict[int, queue.Queue] = {h: queue.Queue() for h in self.hashseeds}
        self.results: queue.Queue = queue.Queue()
        self.procs = []
        self.threads = []
        per = max(1, workers // len(self.hashseeds))
        env_base = dict(os.environ)
        env_base["PYTHONPATH"] = VERIF + os.pathsep + os.environ.get("FACTOSIM_REPO", "/repo")
        env_base["PYTHONDONTWRITEBYTECODE"] = "1"
        env_base.setdefault("FACTOMPILER_VERIF", "1")
        for h in self.hashseeds:
            for _ in range(per):
                env = dict(env_base)
                env["PYTHONHASHSEED"] = str(h)
                p = subprocess.Popen(
                    [PY, "-c", "from factosim.engine import worker_main; worker_main()"],
                    stdin=subprocess.PIPE, stdout=subprocess.PIPE, stderr=subprocess.DEVNULL,
                    env=env, cwd=os.environ.get("FACTOSIM_CWD", VERIF), text=True, bufsize=1,
                )
                self.procs.append(p)
                t = threading.Thread(target=self._drive, args=(p, h), daemon=True)
                t.start()
                self.threads.append(t)

    def _drive(self, p: subprocess.Popen, h: int) -> None:
        try:
            ready = p.stdout.readline()
            if not ready:
                self.results.put({"id": None, "result": {"status": "harness-error",
                                                          "error": "worker failed to start"}})
                return
            q = self.queues[h]
            while True:
                task = q.get()
                if task is None:
                    try:
                        p.stdin.write(json.dumps({"quit": True}) + "\n")
                        p.stdin.flush()
                    except Exception:
                        pass
                    return
                try:
                    p.stdin.write(json.dumps(task) + "\n")
                    p.stdin.flush()
                    line = p.stdout.readline()
                    if not line:
                        raise RuntimeError("worker died")
                    self.results.put(json.loads(line))
                except Exception as exc:
                    self.results.put({"id": task["id"], "result": {
                        "status": "harness-error", "error": f"worker: {exc}"}})
                    return
        except Exception as exc:  # pragma: no cover
            self.results.put({"id": None, "result": {"status": "harness-error", "error": str(exc)}})

    def submit(self, task: dict) -> None:
        h = task.get("hashseed")
        if h not in self.queues:
            h = self.hashseeds[0]
            task["hashseed"] = h
        self.queues[h].put(task)

    def run_all(self, tasks: list[dict], deadline: float | None = None, on_result=None) -> dict:
        """Submit tasks, return {id: answer}. Tasks not finished by the deadline are dropped
        (reported by the caller as not run, never as passed)."""
        for t in tasks:
            self.submit(t)
        out: dict = {}
        n = len(tasks)
        while len(out) < n:
            timeout = None
            if deadline is not None:
                timeout = deadline - time.monotonic()
                if timeout <= 0:
                    break
            try:
                ans = self.results.get(timeout=timeout)
            except queue.Empty:
                break
            if ans.get("id") is None:
                raise RuntimeError("worker start failure: " + str(ans))
            out[ans["id"]] = ans
            if on_result:
                on_result(ans)
        return out

    def drain_pending(self) -> None:
        for q in self.queues.values():
            try:
                while True:
                    q.get_nowait()
            except queue.Empty:
                pass

    def close(self) -> None:
        self.drain_pending()
        for h, q in self.queues.items():
            for _ in self.procs:
                q.put(None)
        for p in self.procs:
            try:
                p.wait(timeout=3)
            except Exception:
                p.kill()
