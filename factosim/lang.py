"""Generator-side language model: own AST (JSON-serialisable nested lists), printer with the
minimum parentheses the documented precedence table allows, and a reference interpreter.

The repository's grammar, transformer, precedence ladder, typing and lowering are all on the
tested side: nothing here imports the compiler.

Expressions (lists):
  ["lit", n, base]               integer literal printed in base 2/8/10/16
  ["var", name]                  declared int / Signal / Bundle / parameter / iterator
  ["bin", op, a, b]              + - * / % ** << >> AND OR XOR == != < <= > >= && ||
  ["neg", a]  ["not", a]
  ["proj", a, type]              a | "type"
  ["projt", a, name]             a | name.type
  ["siglit", type, value]        ("type", value)
  ["siglitt", name, value]       (name.type, value)
  ["sel", cond, value]           cond : value
  ["read", mem]                  mem.read()
  ["blit", [e...]]               { e, ... }
  ["bsel", b, type]              b["type"]
  ["any", b] ["all", b]
  ["call", fname, [args]]
  ["eout", entity]               entity.output
Statements:
  ["decl", kind, name, expr]     kind in int Signal Bundle Entity
  ["mem", name, type|None]
  ["write", mem, expr, when|None]
  ["latch", mem, value, set, reset, "sr"|"rs"]
  ["place", name|None, proto, xexpr, yexpr, props|None]
  ["enable", ent, expr]
  ["assign", name, expr]         re-binding of an Entity variable
  ["for", var, ["range", a, b, step|None] | ["list", [ints]], body]
  ["func", name, [[ptype, pname]...], body, retexpr|None]
  ["expr", expr]                 expression statement (calls)
  ["import", path]
  ["raw", text]                  verbatim text (not interpreted)
"""
from __future__ import annotations

from .world import arith, i32

# ---------------------------------------------------------------------------------- printer
# precedence levels, higher binds tighter (documented table)
_LEVEL = {
    "||": 1, "&&": 2, ":": 3,
    "==": 4, "!=": 4, "<": 4, "<=": 4, ">": 4, ">=": 4,
    "|": 5, "OR": 6, "XOR": 7, "AND": 8, "<<": 9, ">>": 9,
    "+": 10, "-": 10, "*": 11, "/": 11, "%": 11, "**": 12,
}
_UNARY = 13
_PRIMARY = 14

CMP_OPS = ("==", "!=", "<", "<=", ">", ">=")
ARITH_OPS = ("+", "-", "*", "/", "%", "**", "<<", ">>", "AND", "OR", "XOR")
LOGIC_OPS = ("&&", "||")


def fmt_int(n: int, base: int = 10) -> str:
    if base == 10 or n < 0:
        return str(n)
    if base == 16:
        return hex(n)
    if base == 8:
        return "0o" + oct(n)[2:]
    if base == 2:
        return bin(n)
    return str(n)


def level(e) -> int:
    t = e[0]
    if t == "bin":
        return _LEVEL[e[1]]
    if t in ("neg", "not"):
        return _UNARY
    if t in ("proj", "projt"):
        return _LEVEL["|"]
    if t == "sel":
        return _LEVEL[":"]
    return _PRIMARY


def pexpr(e, need: int = 0) -> str:
    """Print e; parenthesise if its level is below `need`."""
    s = _p(e)
    return f"({s})" if level(e) < need else s


def _p(e) -> str:
    t = e[0]
    if t == "lit":
        return fmt_int(e[1], e[2] if len(e) > 2 else 10)
    if t == "var":
        return e[1]
    if t == "bin":
        op, a, b = e[1], e[2], e[3]
        lv = _LEVEL[op]
        if op == "**":
            # power: unary (POWER_OP power)?  -> left operand unary-level, right power-level
            return f"{pexpr(a, _UNARY)} ** {pexpr(b, lv)}"
        return f"{pexpr(a, lv)} {op} {pexpr(b, lv + 1)}"
    if t == "neg":
        inner = pexpr(e[1], _UNARY)
        # "--5" would lex oddly; keep a space before a negative literal / nested minus
        return "-" + (" " + inner if inner.startswith("-") else inner)
    if t == "not":
        return "!" + pexpr(e[1], _UNARY)
    if t == "proj":
        return f'{pexpr(e[1], _LEVEL["|"])} | "{e[2]}"'
    if t == "projt":
        return f'{pexpr(e[1], _LEVEL["|"])} | {e[2]}.type'
    if t == "siglit":
        return f'("{e[1]}", {pexpr(e[2])})'
    if t == "siglitt":
        return f"({e[1]}.type, {pexpr(e[2])})"
    if t == "sel":
        # output_spec: comparison [":" primary]
        return f"{pexpr(e[1], _LEVEL['=='])} : {pexpr(e[2], _PRIMARY)}"
    if t == "read":
        return f"{e[1]}.read()"
    if t == "blit":
        return "{" + ", ".join(pexpr(x) for x in e[1]) + "}" if e[1] else "{}"
    if t == "bsel":
        return f'{pexpr(e[1], _PRIMARY)}["{e[2]}"]'
    if t == "any":
        return f"any({pexpr(e[1])})"
    if t == "all":
        return f"all({pexpr(e[1])})"
    if t == "call":
        return f"{e[1]}(" + ", ".join(pexpr(x) for x in e[2]) + ")"
    if t == "eout":
        return f"{e[1]}.output"
    if t == "place":
        return _place(e)
    raise ValueError(f"cannot print {e!r}")


def _props(props) -> str:
    def pv(v):
        if isinstance(v, dict):
            return "{" + ", ".join(f"{k}: {pv(x)}" for k, x in v.items()) + "}"
        if isinstance(v, str):
            return f'"{v}"'
        return str(v)

    return "{" + ", ".join(f"{k}: {pv(v)}" for k, v in props.items()) + "}"


def _place(e) -> str:
    _t, _name, proto, x, y, props = e
    s = f'place("{proto}", {pexpr(x)}, {pexpr(y)}'
    if props:
        s += ", " + _props(props)
    return s + ")"


def pstmt(s, ind: str = "") -> list[str]:
    t = s[0]
    if t == "decl":
        return [f"{ind}{s[1]} {s[2]} = {pexpr(s[3])};"]
    if t == "mem":
        return [f'{ind}Memory {s[1]}: "{s[2]}";' if s[2] else f"{ind}Memory {s[1]};"]
    if t == "write":
        if s[3] is None:
            return [f"{ind}{s[1]}.write({pexpr(s[2])});"]
        return [f"{ind}{s[1]}.write({pexpr(s[2])}, when={pexpr(s[3])});"]
    if t == "latch":
        if s[5] == "sr":
            return [f"{ind}{s[1]}.write({pexpr(s[2])}, set={pexpr(s[3])}, reset={pexpr(s[4])});"]
        return [f"{ind}{s[1]}.write({pexpr(s[2])}, reset={pexpr(s[4])}, set={pexpr(s[3])});"]
    if t == "place":
        if s[1] is None:
            return [f"{ind}{_place(s)};"]
        return [f"{ind}Entity {s[1]} = {_place(s)};"]
    if t == "enable":
        return [f"{ind}{s[1]}.enable = {pexpr(s[2])};"]
    if t == "assign":
        return [f"{ind}{s[1]} = {pexpr(s[2])};"]
    if t == "for":
        it = s[2]
        if it[0] == "range":
            hdr = f"{pexpr(it[1])}..{pexpr(it[2])}"
            if it[3] is not None:
                hdr += f" step {pexpr(it[3])}"
        else:
            hdr = "[" + ", ".join(str(v) for v in it[1]) + "]"
        out = [f"{ind}for {s[1]} in {hdr} {{"]
        for b in s[3]:
            out += pstmt(b, ind + "    ")
        out.append(f"{ind}}}")
        return out
    if t == "func":
        params = ", ".join(f"{pt} {pn}" for pt, pn in s[2])
        out = [f"{ind}func {s[1]}({params}) {{"]
        for b in s[3]:
            out += pstmt(b, ind + "    ")
        if s[4] is not None:
            out.append(f"{ind}    return {pexpr(s[4])};")
        out.append(f"{ind}}}")
        return out
    if t == "expr":
        return [f"{ind}{pexpr(s[1])};"]
    if t == "import":
        return [f'{ind}import "{s[1]}";']
    if t == "raw":
        return [ind + line for line in s[1].split("\n")]
    raise ValueError(f"cannot print statement {s!r}")


def pprogram(stmts) -> str:
    out: list[str] = []
    for s in stmts:
        out += pstmt(s)
    return "\n".join(out) + "\n"


# ---------------------------------------------------------------------------------- values
class Sig:
    """A scalar signal value: type (None = the language leaves it to the compiler) and value."""

    __slots__ = ("type", "v")

    def __init__(self, type_, v):
        self.type = type_
        self.v = i32(v)

    def __repr__(self):
        return f"Sig({self.type!r},{self.v})"


class Bun:
    """A bundle: map type -> value (only non-zero members exist on a wire).
    `unknown` marks members living on compiler-chosen types (not comparable by name)."""

    __slots__ = ("m", "unknown")

    def __init__(self, m, unknown=False):
        self.m = {k: i32(v) for k, v in m.items() if i32(v)}
        self.unknown = unknown

    def __repr__(self):
        return f"Bun({self.m})"


class EntRef:
    __slots__ = ("proto", "x", "y", "props", "uid")

    def __init__(self, proto, x, y, props, uid):
        self.proto, self.x, self.y, self.props, self.uid = proto, x, y, props, uid


class RefError(Exception):
    """The reference interpreter met a program outside the fragment it models."""


def truth(v) -> bool:
    if isinstance(v, int):
        return v != 0
    if isinstance(v, Sig):
        return v.v != 0
    raise RefError("truth of non-scalar")


def ival(v) -> int:
    if isinstance(v, int):
        return v
    if isinstance(v, Sig):
        return v.v
    raise RefError("scalar expected")


def cmp_op(op: str, a: int, b: int) -> bool:
    return {
        "==": a == b, "!=": a != b, "<": a < b, "<=": a <= b, ">": a > b, ">=": a >= b,
    }[op]


def ref_arith(op: str, a: int, b: int) -> int:
    """Run-time (Factorio) arithmetic, the documented meaning of the operators."""
    return arith("^" if op == "**" else op, i32(a), i32(b))


def _is_virtual(name: str) -> bool:
    from . import gamedata

    return gamedata.signal_type(name) == "virtual"


def cint(op: str, a: int, b: int) -> int:
    """Compile-time integer arithmetic, restricted to the domain where every reasonable
    definition agrees (C11 - folding vs run-time arithmetic - is not claimed): operands and
    result inside int32, division/remainder only on non-negative dividend and positive
    divisor, shifts by 0..31 of non-negative values, powers with small non-negative exponent."""
    lo, hi = -(1 << 31), (1 << 31) - 1
    if not (lo <= a <= hi and lo <= b <= hi):
        raise RefError("constant outside int32")
    if op in ("+", "-", "*"):
        r = {"+": a + b, "-": a - b, "*": a * b}[op]
    elif op in ("/", "%"):
        if a < 0 or b <= 0:
            raise RefError("constant division outside the safe domain")
        r = a // b if op == "/" else a % b
    elif op == "**":
        if b < 0 or b > 16:
            raise RefError("constant power outside the safe domain")
        r = a**b
    elif op in ("<<", ">>"):
        if a < 0 or not 0 <= b <= 31:
            raise RefError("constant shift outside the safe domain")
        r = a << b if op == "<<" else a >> b
    elif op in ("AND", "OR", "XOR"):
        if a < 0 or b < 0:
            raise RefError("constant bitwise op on negative value")
        r = {"AND": a & b, "OR": a | b, "XOR": a ^ b}[op]
    else:
        raise RefError(op)
    if not lo <= r <= hi:
        raise RefError("constant result outside int32")
    return r


class Interp:
    """Reference interpreter.  One call of run() evaluates the statement list once under
    `inputs` (name -> value for declared inputs) and `reads` (memory name -> value currently
    readable); it returns the environment, the list of writes and placed entities."""

    def __init__(self, stmts):
        self.stmts = stmts
        self.funcs = {s[1]: s for s in stmts if s[0] == "func"}

    # per-run state
    def run(self, inputs: dict, reads: dict | None = None, emits: dict | None = None):
        self.inputs = inputs
        self.reads = reads or {}
        self.emits = emits or {}
        self.writes: list = []      # (mem uid, value Sig, when value|None, kind, extra)
        self.enables: list = []     # (entity uid, value)
        self.places: list = []      # EntRef
        self.mem_types: dict = {}
        self.mem_uid: dict = {}
        self.top_env: dict = {}
        self._uid = 0
        self._scope_tag = ""
        env = self.top_env
        self._block(self.stmts, env, top=True)
        return env

    def _fresh(self, base: str) -> str:
        self._uid += 1
        return f"{base}#{self._uid}"

    def _block(self, stmts, env, top=False):
        for s in stmts:
            self._stmt(s, env, top)

    def _stmt(self, s, env, top):
        t = s[0]
        if t == "decl":
            kind, name, ex = s[1], s[2], s[3]
            if kind == "Entity":
                v = self.ev(ex, env)
                if not isinstance(v, EntRef):
                    raise RefError("Entity decl of non-entity")
                env[name] = v
                return
            if top and ex[0] == "siglit" and name in self.inputs:
                env[name] = Sig(ex[1], self.inputs[name])
                return
            v = self.ev(ex, env)
            if kind == "int":
                if not isinstance(v, int):
                    raise RefError("int decl of signal")
                env[name] = v
            elif kind == "Signal":
                env[name] = v if isinstance(v, Sig) else Sig(None, ival(v))
            elif kind == "Bundle":
                if not isinstance(v, Bun):
                    raise RefError("Bundle decl of scalar")
                env[name] = v
            else:
                raise RefError(kind)
        elif t == "mem":
            uid = name_uid = s[1] if top and not self._scope_tag else self._fresh(s[1])
            env[s[1]] = ("mem", uid)
            self.mem_types[uid] = s[2]
            self.mem_uid[s[1]] = name_uid
        elif t == "write":
            m = env.get(s[1])
            if not m or m[0] != "mem":
                raise RefError("write to non-memory")
            v = self.ev(s[2], env)
            w = self.ev(s[3], env) if s[3] is not None else None
            self.writes.append((m[1], v, w, "when", None))
        elif t == "latch":
            m = env.get(s[1])
            v = self.ev(s[2], env)
            st = self.ev(s[3], env)
            rs = self.ev(s[4], env)
            self.writes.append((m[1], v, None, "latch", (st, rs, s[5])))
        elif t == "place":
            ref = self._place(s, env)
            if s[1] is not None:
                env[s[1]] = ref
        elif t == "assign":
            v = self.ev(s[2], env)
            scope = env
            while isinstance(scope, _Scope) and not dict.__contains__(scope, s[1]):
                scope = scope.parent
            if s[1] not in scope:
                raise RefError("assignment to undeclared name")
            scope[s[1]] = v
        elif t == "enable":
            ent = env.get(s[1])
            if not isinstance(ent, EntRef):
                raise RefError("enable on non-entity")
            self.enables.append((ent.uid, self.ev(s[2], env)))
        elif t == "for":
            it = s[2]
            if it[0] == "range":
                a, b = self.ev(it[1], env), self.ev(it[2], env)
                if not isinstance(a, int) or not isinstance(b, int):
                    raise RefError("non-constant range bound")
                if it[3] is None:
                    st = 1            # documented default step; descending needs `step -n`
                else:
                    st = self.ev(it[3], env)
                if st == 0:
                    raise RefError("zero step")
                vals = []
                x = a
                while (st > 0 and x < b) or (st < 0 and x > b):
                    vals.append(x)
                    x += st
            else:
                vals = list(it[1])
            for v in vals:
                inner = _Scope(env)
                inner[s[1]] = v
                saved = self._scope_tag
                self._scope_tag = saved + f"/{s[1]}={v}"
                self._block(s[3], inner)
                self._scope_tag = saved
        elif t == "func":
            return
        elif t == "expr":
            self.ev(s[1], env)
        elif t in ("import", "raw"):
            raise RefError("import/raw in interpreted program")
        else:
            raise RefError(t)

    def _place(self, s, env) -> EntRef:
        x, y = self.ev(s[3], env), self.ev(s[4], env)
        if not isinstance(x, int) or not isinstance(y, int):
            raise RefError("non-constant coordinate")
        ref = EntRef(s[2], x, y, s[5] or {}, self._fresh("ent"))
        self.places.append(ref)
        return ref

    # -------------------------------------------------------------- expressions
    def ev(self, e, env):
        t = e[0]
        if t == "lit":
            return e[1]
        if t == "var":
            if e[1] not in env:
                raise RefError(f"unbound {e[1]}")
            return env[e[1]]
        if t == "bin":
            return self._bin(e, env)
        if t == "neg":
            a = self.ev(e[1], env)
            if isinstance(a, int):
                if a == -(1 << 31):
                    raise RefError("constant negation overflow")
                return -a
            if isinstance(a, Sig):
                return Sig(a.type, i32(-a.v))
            raise RefError("neg of bundle")
        if t == "not":
            a = self.ev(e[1], env)
            r = 0 if truth(a) else 1
            if isinstance(a, int):
                return r
            return Sig(None, r)
        if t == "proj":
            a = self.ev(e[1], env)
            return Sig(e[2], ival(a))
        if t == "projt":
            a = self.ev(e[1], env)
            src = env.get(e[2])
            if not isinstance(src, Sig):
                raise RefError(".type of non-signal")
            return Sig(src.type, ival(a))
        if t == "siglit":
            return Sig(e[1], ival(self.ev(e[2], env)))
        if t == "siglitt":
            src = env.get(e[1])
            if not isinstance(src, Sig):
                raise RefError(".type of non-signal")
            return Sig(src.type, ival(self.ev(e[2], env)))
        if t == "sel":
            return self._sel(e, env)
        if t == "read":
            m = env.get(e[1])
            if not m or m[0] != "mem":
                raise RefError("read of non-memory")
            return Sig(self.mem_types.get(m[1]), self.reads.get(m[1], 0))
        if t == "blit":
            out: dict = {}
            unknown = False
            for x in e[1]:
                v = self.ev(x, env)
                if isinstance(v, Bun):
                    unknown |= v.unknown
                    for k, val in v.m.items():
                        out[k] = i32(out.get(k, 0) + val)
                elif isinstance(v, Sig):
                    if v.type is None:
                        unknown = True
                        out[("?", id(v))] = v.v
                    else:
                        out[v.type] = i32(out.get(v.type, 0) + v.v)
                else:
                    raise RefError("int in bundle literal")
            return Bun(out, unknown)
        if t == "bsel":
            b = self.ev(e[1], env)
            if not isinstance(b, Bun):
                raise RefError("select on non-bundle")
            return Sig(e[2], b.m.get(e[2], 0))
        if t in ("any", "all"):
            b = self.ev(e[1], env)
            if not isinstance(b, Bun):
                raise RefError("any/all of non-bundle")
            return (t, b)
        if t == "call":
            return self._call(e, env)
        if t == "eout":
            ent = env.get(e[1])
            if not isinstance(ent, EntRef):
                raise RefError(".output of non-entity")
            return Bun(dict(self.emits.get(ent.uid, {})))
        if t == "place":
            return self._place(e, env)
        raise RefError(f"expr {t}")

    def _bin(self, e, env):
        op = e[1]
        a = self.ev(e[2], env)
        b = self.ev(e[3], env)
        # any()/all() comparison
        if isinstance(a, tuple) and a and a[0] in ("any", "all"):
            if op not in CMP_OPS:
                raise RefError("any/all outside comparison")
            rhs = ival(b)
            vals = list(a[1].m.values())
            if a[0] == "any":
                r = any(cmp_op(op, v, rhs) for v in vals)
            else:
                r = all(cmp_op(op, v, rhs) for v in vals)
            return Sig(None, 1 if r else 0)
        if isinstance(a, Bun):
            if op in CMP_OPS:
                # bare bundle comparison is only meaningful before ':' (handled in _sel)
                return ("bcmp", op, a, ival(b))
            if op not in ARITH_OPS:
                raise RefError("logic on bundle")
            if isinstance(b, Bun):
                raise RefError("bundle op bundle")
            s = ival(b)
            return Bun({k: ref_arith(op, v, s) for k, v in a.m.items()}, a.unknown)
        if isinstance(b, Bun) or isinstance(b, tuple):
            raise RefError("bundle on the right")
        if op in ARITH_OPS:
            if isinstance(a, int) and isinstance(b, int):
                return cint(op, a, b)
            r = ref_arith(op, ival(a), ival(b))
            return Sig(self._btype(a, b), r)
        if op in CMP_OPS:
            r = 1 if cmp_op(op, ival(a), ival(b)) else 0
            if isinstance(a, int) and isinstance(b, int):
                return r
            # documented: inherits the left operand's type.  The compiler deliberately keeps
            # comparison results on *virtual* channels (item/fluid left operands get another
            # channel), which the documentation does not spell out, so the type is only
            # demanded when the left operand is a signal on a virtual channel.
            t = None
            if isinstance(a, Sig) and a.type is not None and _is_virtual(a.type):
                t = a.type
            return Sig(t, r)
        if op == "&&":
            r = 1 if (truth(a) and truth(b)) else 0
        elif op == "||":
            r = 1 if (truth(a) or truth(b)) else 0
        else:
            raise RefError(op)
        if isinstance(a, int) and isinstance(b, int):
            return r
        return Sig(None, r)

    @staticmethod
    def _btype(a, b):
        if isinstance(a, Sig):
            return a.type
        if isinstance(b, Sig):
            return b.type
        return None

    def _sel(self, e, env):
        c = self.ev(e[1], env)
        v = self.ev(e[2], env)
        if isinstance(c, tuple) and c and c[0] == "bcmp":
            _t, op, bun, rhs = c
            keep = {k: val for k, val in bun.m.items() if cmp_op(op, val, rhs)}
            if isinstance(v, Bun):
                return Bun(keep, bun.unknown)
            if isinstance(v, int):
                return Bun({k: v for k in keep}, bun.unknown)
            raise RefError("filter output must be the bundle or an int")
        on = truth(c)
        if isinstance(v, Bun):
            return Bun(v.m if on else {}, v.unknown)
        if isinstance(v, int):
            return Sig(None, v if on else 0)
        return Sig(v.type, v.v if on else 0)

    def _call(self, e, env):
        f = self.funcs.get(e[1])
        if f is None:
            raise RefError(f"unknown function {e[1]}")
        params = f[2]
        if len(params) != len(e[2]):
            raise RefError("arity")
        local = _Scope(self.top_env_funcs())
        for (pt, pn), ax in zip(params, e[2]):
            av = self.ev(ax, env)
            if pt == "int":
                if isinstance(av, Sig):
                    raise RefError("Signal passed for int parameter (not modelled)")
                local[pn] = av
            elif pt == "Signal":
                local[pn] = av if isinstance(av, Sig) else Sig(None, ival(av))
            elif pt == "Entity":
                local[pn] = av
        saved = self._scope_tag
        self._scope_tag = saved + f"/{e[1]}@{self._fresh('c')}"
        self._block(f[3], local)
        r = self.ev(f[4], local) if f[4] is not None else None
        self._scope_tag = saved
        return r

    def top_env_funcs(self):
        # functions see only top-level names declared so far (and other functions)
        return self.top_env


class _Scope(dict):
    """Child scope: lookups fall back to the parent, definitions stay local."""

    def __init__(self, parent):
        super().__init__()
        self.parent = parent

    def __contains__(self, k):
        return dict.__contains__(self, k) or k in self.parent

    def __getitem__(self, k):
        if dict.__contains__(self, k):
            return dict.__getitem__(self, k)
        return self.parent[k]

    def get(self, k, d=None):
        if k in self:
            return self[k]
        return d
