"""factosim - deterministic simulation with fault injection for Factompiler.

world    : Factorio 2.0 circuit-network model (stub for the game engine)
gamedata : prototype geometry / reach / power data read from draftsman's game data
lang     : generator-side AST, printer and reference interpreter
gen      : seeded program / schedule / fault generators (choice-tape driven)
seam     : compile harness owning the solver, routing, hash-seed and cwd seams
engine   : master / worker / fork-per-run execution, shrinking, replay, evidence
props    : one module per property (case generation + oracle)
"""
