"""Compile harness: runs the repository's own compiler from /repo's working tree and owns the
seams through which nondeterminism and faults enter it.

Seams (none needs a hook in /repo - all are module attributes looked up at call time):
  * integer_layout_solver.cp_model      -> proxy whose CpSolver is SimSolver (deterministic
                                            CP-SAT, injected UNKNOWN outcomes, first-solution
                                            stop, perturbed objective = arbitrary feasible point)
  * connection_planner.RelayNetwork.route_signal -> wrapper that fails scheduled calls
  * parser.DSLParser._load_grammar      -> Lark object cached per grammar text (speed only)
  * logging                             -> silenced
Everything that happens at a seam is appended to the run's event log (no clocks, no PRNG).
"""
from __future__ import annotations

import hashlib
import json
import logging
import math
import os
import random
import sys
import warnings

REPO = os.environ.get("FACTOSIM_REPO", "/repo")

_installed = False
_current: "Harness | None" = None
_real_cp_model = None
_real_route_signal = None
_lark_cache: dict = {}


class Harness:
    """State of one compilation under a fault plan."""

    def __init__(self, plan: dict | None):
        plan = plan or {}
        self.solver = dict(plan.get("solver") or {"mode": "det"})
        self.route_fail = set(plan.get("route_fail") or [])
        self.no_relays = bool(plan.get("reference_no_relays"))
        self.events: list = []
        self.solve_calls = 0
        self.route_calls = 0  # only calls that needed relays
        self.fired: dict[str, int] = {}

    def fire(self, kind: str) -> None:
        self.fired[kind] = self.fired.get(kind, 0) + 1


def _ensure_repo_on_path() -> None:
    if REPO not in sys.path:
        sys.path.insert(0, REPO)


_default_plan: dict | None = None
_captured_plan = None


def set_default_plan(plan: dict) -> None:
    """Fault plan used when the compiler is entered without the harness (CLI subprocess)."""
    global _current, _default_plan
    _default_plan = plan
    _current = Harness(plan)


def install(quiet_logging: bool = True) -> None:
    """Patch the seams (idempotent). Must run in the process that compiles."""
    global _installed, _real_cp_model, _real_route_signal
    if _installed:
        return
    _ensure_repo_on_path()
    if quiet_logging:
        logging.disable(logging.CRITICAL)
        warnings.simplefilter("ignore")

    from ortools.sat.python import cp_model as real

    _real_cp_model = real
    import dsl_compiler.src.layout.integer_layout_solver as ils
    import dsl_compiler.src.layout.connection_planner as cp
    import dsl_compiler.src.parsing.parser as parser_mod

    class SimSolver(real.CpSolver):
        def __init__(self):
            super().__init__()
            self._sim_no_response = False

        def solve(self, model, solution_callback=None):  # noqa: D401
            h = _current
            if h is None:
                return super().solve(model, solution_callback)
            idx = h.solve_calls
            h.solve_calls += 1
            cfg = h.solver
            mode = cfg.get("mode", "det")
            p = self.parameters
            p.num_workers = 1
            p.random_seed = int(cfg.get("seed", 0)) & 0x7FFFFFFF
            p.max_time_in_seconds = 1.0e9
            p.max_deterministic_time = float(cfg.get("budget", 0.05))
            p.log_search_progress = False
            nvars = len(model.proto.variables)
            if mode == "unknown_all" or (mode == "unknown_first" and idx < int(cfg.get("k", 1))):
                self._sim_no_response = True
                h.fire("solver-unknown")
                h.events.append(["solve", idx, "unknown", "UNKNOWN", nvars])
                return real.UNKNOWN
            self._sim_no_response = False
            if mode == "first":
                p.stop_after_first_solution = True
                status = super().solve(model, solution_callback)
                h.fire("first-solution")
            elif mode == "perturb":
                m2 = _perturbed(model, cfg, idx)
                p.stop_after_first_solution = bool(cfg.get("first", False))
                status = super().solve(m2, None)
                h.fire("perturbed-objective")
            else:
                status = super().solve(model, solution_callback)
                h.fire("cpsat-det")
            sname = self.status_name(status)
            if sname not in ("OPTIMAL", "FEASIBLE"):
                h.fire("solver-no-solution")
            h.events.append(["solve", idx, mode, sname, nvars])
            return status

        Solve = solve

        @property
        def wall_time(self):
            if self._sim_no_response:
                return 0.0
            return real.CpSolver.wall_time.fget(self)

        def WallTime(self):  # noqa: N802
            return self.wall_time

    class _Proxy:
        def __getattr__(self, name):
            return getattr(real, name)

    proxy = _Proxy()
    proxy.CpSolver = SimSolver
    ils.cp_model = proxy

    _real_route_signal = cp.RelayNetwork.route_signal

    def route_signal(self, source_pos, sink_pos, signal_name, wire_color, network_id=0):
        h = _current
        if h is None:
            return _real_route_signal(self, source_pos, sink_pos, signal_name, wire_color, network_id)
        if math.dist(source_pos, sink_pos) <= self.span_limit:
            return _real_route_signal(self, source_pos, sink_pos, signal_name, wire_color, network_id)
        if h.no_relays:
            return []  # harness-only reference build: logical wiring without any relay pole
        idx = h.route_calls
        h.route_calls += 1
        if idx in h.route_fail:
            h.fire("route-fail")
            h.events.append(["route", idx, "injected-fail"])
            return None
        res = _real_route_signal(self, source_pos, sink_pos, signal_name, wire_color, network_id)
        h.events.append(["route", idx, None if res is None else len(res)])
        if res is None:
            h.fire("route-fail-natural")
        return res

    cp.RelayNetwork.route_signal = route_signal

    real_load = parser_mod.DSLParser._load_grammar

    def _load_grammar(self):
        try:
            with open(self.grammar_path) as fh:
                text = fh.read()
        except OSError:
            return real_load(self)
        key = hashlib.sha256(text.encode()).hexdigest()
        ent = _lark_cache.get(key)
        if ent is None:
            real_load(self)
            _lark_cache[key] = (self.parser, self.transformer)
        else:
            self.parser, self.transformer = ent

    parser_mod.DSLParser._load_grammar = _load_grammar

    # observer: remember the layout plan the emitter was given (C07 compares it with the text)
    import dsl_compiler.src.emission.emitter as emitter_mod

    real_emit = emitter_mod.BlueprintEmitter.emit_from_plan

    def emit_from_plan(self, layout_plan):
        global _captured_plan
        _captured_plan = layout_plan
        return real_emit(self, layout_plan)

    emitter_mod.BlueprintEmitter.emit_from_plan = emit_from_plan
    _installed = True


def _perturbed(model, cfg: dict, idx: int):
    """Same constraints, different objective: a seeded linear function of the free position
    variables inside a box - any optimum of it is a feasible point of the original model, i.e. a
    legal FEASIBLE answer of an interrupted search."""
    real = _real_cp_model
    m2 = model.clone()
    proto = m2.proto
    rng = random.Random((int(cfg.get("seed", 0)) << 8) ^ idx)
    spread = int(cfg.get("spread", 40))
    proto.clear_solution_hint()
    terms = []
    for i, v in enumerate(proto.variables):
        nm = v.name
        if not (nm.startswith("x_") or nm.startswith("y_")) or nm.startswith("x_int_") or nm.startswith("y_int_"):
            continue
        dom = list(v.domain)
        if len(dom) != 2 or dom[0] == dom[1]:
            continue
        hi = min(dom[1], max(dom[0], spread))
        v.domain.clear()
        v.domain.extend([dom[0], hi])
        terms.append((i, rng.choice((-3, -2, -1, 1, 2, 3))))
    # also keep the shared edge lines inside the box so inputs/outputs are not forced far away
    for i, v in enumerate(proto.variables):
        if v.name in ("Y_input_line", "Y_output_line"):
            dom = list(v.domain)
            if len(dom) == 2 and dom[1] > spread:
                v.domain.clear()
                v.domain.extend([dom[0], max(dom[0], spread)])
    obj = proto.objective
    obj.vars.clear()
    obj.coeffs.clear()
    obj.clear_offset()
    obj.clear_scaling_factor()
    for i, c in terms:
        obj.vars.append(i)
        obj.coeffs.append(c)
    return m2


def warm() -> None:
    """Import everything heavy once (before fork)."""
    install()
    from dsl_compiler.cli import compile_dsl_source  # noqa: F401
    from dsl_compiler.src.parsing.parser import DSLParser

    DSLParser()
    from . import gamedata

    gamedata.kind_of("arithmetic-combinator")


def compile_source(
    src: str,
    *,
    optimize: bool = True,
    poles: str | None = None,
    retries: int = 3,
    source_name: str = "<string>",
    plan: dict | None = None,
    want_text: bool = False,
) -> dict:
    """Compile through the public API under a fault plan. Never raises for compiler errors."""
    global _current
    install()
    from dsl_compiler.cli import compile_dsl_source

    global _captured_plan
    _captured_plan = None
    h = Harness(plan)
    _current = h
    out: dict = {"ok": False, "bp": None, "error": None, "stage": None, "crash": False}
    try:
        ok, res, diags = compile_dsl_source(
            src,
            source_name=source_name,
            optimize=optimize,
            power_pole_type=poles,
            use_json=not want_text,
            max_layout_retries=retries,
        )
        if ok:
            out["ok"] = True
            if want_text:
                out["text"] = res
            else:
                out["bp"] = json.loads(res)
            out["diags"] = [str(d) for d in (diags or [])][:50]
        else:
            out["error"] = str(res)
            out["stage"] = "returned-false"
    except (RuntimeError, SyntaxError, FileNotFoundError) as exc:
        msg = str(exc)
        out["error"] = msg[:600]
        st = "error"
        if msg.startswith("[") and "]" in msg:
            st = msg[1 : msg.index("]")]
        elif isinstance(exc, SyntaxError) or "Parse error" in msg or "parsing" in msg:
            st = "parse"
        out["stage"] = st
    except RecursionError as exc:
        out["error"] = "RecursionError: " + str(exc)[:200]
        out["stage"] = "crash"
        out["crash"] = True
    except Exception as exc:  # internal crash of the compiler: counted apart
        out["error"] = f"{type(exc).__name__}: {exc}"[:600]
        out["stage"] = "crash"
        out["crash"] = True
    finally:
        _current = Harness(_default_plan) if _default_plan else None
    out["plan_obj"] = _captured_plan if out["ok"] else None
    out["events"] = h.events
    out["fired"] = h.fired
    out["solve_calls"] = h.solve_calls
    out["route_calls"] = h.route_calls
    return out


def digest(obj) -> str:
    return hashlib.sha256(json.dumps(obj, sort_keys=True, default=str).encode()).hexdigest()[:16]
