"""Human-readable dump of a blueprint as the world model sees it (debugging / replay reports)."""
from __future__ import annotations

from .world import World, names


def _sig(d):
    if not d:
        return None
    return d.get("name")


def _nets(n):
    if n is None:
        return "rg"
    return ("r" if n.get("red", True) else "") + ("g" if n.get("green", True) else "")


def describe(e) -> str:
    cb = e.cb
    if e.kind == "arith":
        ac = cb.get("arithmetic_conditions", {})
        a = _sig(ac.get("first_signal")) or ac.get("first_constant", 0)
        b = _sig(ac.get("second_signal")) or ac.get("second_constant", 0)
        return (f"{a}[{_nets(ac.get('first_signal_networks'))}] {ac.get('operation', '*')} "
                f"{b}[{_nets(ac.get('second_signal_networks'))}] -> {_sig(ac.get('output_signal'))}")
    if e.kind == "decider":
        dc = cb.get("decider_conditions", {})
        cs = []
        for c in dc.get("conditions", []):
            a = _sig(c.get("first_signal"))
            b = _sig(c.get("second_signal")) or c.get("constant", 0)
            cs.append(f"{c.get('compare_type', 'or')}: {a}[{_nets(c.get('first_signal_networks'))}] "
                      f"{c.get('comparator', '<')} {b}[{_nets(c.get('second_signal_networks'))}]")
        os_ = []
        for o in dc.get("outputs", []):
            os_.append(f"{_sig(o.get('signal'))}="
                       + ("copy[" + _nets(o.get("networks")) + "]" if o.get("copy_count_from_input", True)
                          else str(o.get("constant", 1))))
        return " ; ".join(cs) + " => " + ", ".join(os_)
    if e.kind == "const":
        return "const " + str(names(e.const or {}))
    cc = cb.get("circuit_condition")
    if cc:
        return (f"cond {_sig(cc.get('first_signal'))} {cc.get('comparator', '<')} "
                f"{_sig(cc.get('second_signal')) or cc.get('constant', 0)}")
    return ""


def dump(w: World, values: bool = True) -> str:
    out = []
    vals = w.net_values()
    for e in sorted(w.ents.values(), key=lambda x: x.num):
        nets = " ".join(f"{c}:n{n}" for c, n in sorted(e.net.items()))
        out.append(f"#{e.num:<3} {e.name:<22} ({e.x},{e.y}) [{nets}] {e.desc}")
        d = describe(e)
        if d:
            out.append(f"      {d}")
        if values and e.kind in ("arith", "decider"):
            out.append(f"      out={names(e.out)}")
    if values:
        for n in sorted(vals):
            out.append(f"  n{n}: {names(vals[n])}  members={w.net_members.get(n)}")
    if w.defects:
        out.append("DEFECTS: " + "; ".join(w.defects))
    return "\n".join(out)
