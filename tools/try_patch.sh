#!/bin/sh
# tools/try_patch.sh <patch.diff> <PROP> [extra check args] : run a quick check against a scratch copy of /repo with the patch
cd "$(dirname "$0")/.."
P="$1"; PROP="$2"; shift 2
scratch=$(mktemp -d /tmp/fv-try-XXXXXX)
rsync -a --exclude .git --exclude '__pycache__' --exclude _mutant /repo/ "$scratch/repo/"
(cd "$scratch/repo" && patch -p1 -s < "$P") || { echo "patch failed"; rm -rf "$scratch"; exit 2; }
FACTOSIM_REPO="$scratch/repo" ./check "$PROP" --tier ${TIER:-quick} --no-evidence "$@" 2>&1 | grep "^$PROP\|^VIOLATION\|classes\|HARNESS" | head -6
rm -rf "$scratch"
