#!/bin/sh
# tools/run_all.sh [quick|thorough] : run every claimed check, print one line per property
TIER="${1:-quick}"
cd "$(dirname "$0")/.."
for p in $(/venv/bin/python -c "import json;print(' '.join(c['property_id'] for c in json.load(open('MANIFEST.json'))['checks']))"); do
  ./check "$p" --tier "$TIER" > "/tmp/fv-runall-$p.log" 2>&1
  rc=$?
  echo "$p exit=$rc $(grep "^$p $TIER:" /tmp/fv-runall-$p.log | cut -c1-170)"
  grep "^VIOLATION\|^HARNESS" "/tmp/fv-runall-$p.log" | head -3
done
