#!/bin/sh
# tools/run_all.sh [quick|thorough] [ID ...] : run every claimed check (or the listed ones), print one line per property
TIER="${1:-quick}"
[ $# -gt 0 ] && shift
cd "$(dirname "$0")/.."
PROPS="$*"
[ -z "$PROPS" ] && PROPS=$(/venv/bin/python -c "import json;print(' '.join(c['property_id'] for c in json.load(open('MANIFEST.json'))['checks']))")
for p in $PROPS; do
  ./check "$p" --tier "$TIER" > "/tmp/fv-runall-$p.log" 2>&1
  rc=$?
  echo "$p exit=$rc $(grep "^$p $TIER:" /tmp/fv-runall-$p.log | cut -c1-170)"
  grep "^VIOLATION\|^HARNESS" "/tmp/fv-runall-$p.log" | head -3
done
