#!/venv/bin/python
"""tools/minimise.py <replay.json> [budget] : structural minimisation of a replay's case (writes <replay>.min.json)"""
import json
import os
import sys

sys.path.insert(0, os.path.dirname(os.path.dirname(os.path.abspath(__file__))))
from factosim import engine, shrink  # noqa: E402


def main():
    path = sys.argv[1]
    budget = int(sys.argv[2]) if len(sys.argv) > 2 else 600
    rep = json.load(open(path))
    case = rep["case"]
    prop = rep["property"]
    hs = case.get("hashseed") or 0
    pool = engine.Pool([hs], 16)
    try:
        best, ans, used = shrink.structural(pool, prop, case, rep["violation"]["class"], budget)
    finally:
        pool.close()
    if ans is None:
        print("no smaller case found (or not reproducible)")
        return
    out = dict(rep, case=best, violation=ans["result"]["violation"], source=ans["result"].get("source") or ans["result"].get("sources"))
    json.dump(out, open(path + ".min.json", "w"), indent=1, default=str)
    src = out["source"]
    print(src if isinstance(src, str) else json.dumps(src, indent=1))
    print(json.dumps(out["violation"])[:800])
    print(best.get("options"), best.get("plan"), "runs used", used)


if __name__ == "__main__":
    main()
