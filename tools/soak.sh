#!/bin/sh
# tools/soak.sh <first_seed> <count> [tier] : run every claimed check for a range of VERIF_SEED values; report any
# VIOLATION / HARNESS line (a clean soak prints only the per-seed summary lines).
FIRST="$1"; COUNT="$2"; TIER="${3:-quick}"
cd "$(dirname "$0")/.."
PROPS=$(/venv/bin/python -c "import json;print(' '.join(c['property_id'] for c in json.load(open('MANIFEST.json'))['checks']))")
s=$FIRST
while [ "$s" -lt $((FIRST + COUNT)) ]; do
  for p in $PROPS; do
    VERIF_SEED=$s ./check "$p" --tier "$TIER" --no-evidence > "/tmp/fv-soak-$$-$p.log" 2>&1
    rc=$?
    echo "seed=$s $p exit=$rc $(grep "^$p $TIER:" /tmp/fv-soak-$$-$p.log | cut -c1-150)"
    if [ "$rc" != 0 ]; then
      grep -B14 "^VIOLATION\|^HARNESS" "/tmp/fv-soak-$$-$p.log" | head -60
    fi
    rm -f "/tmp/fv-soak-$$-$p.log"
  done
  s=$((s + 1))
done
