#!/usr/bin/env python3
"""Regenerates /verif/MANIFEST.json from the table below (keeps it schema-valid)."""
import json
import os

HERE = os.path.dirname(os.path.dirname(os.path.abspath(__file__)))

TECH = "deterministic simulation with fault injection: seeded search over programs, input histories and compile-time fault schedules; compiled circuit executed tick by tick in a circuit-network model against a reference interpreter"

CLAIMED = {
    "C01": dict(
        engine="factosim-exec",
        text="Seeded exploration: stateless scalar programs are compiled by the real compiler under an injected layout-solver / routing fault plan and hash seed, the emitted JSON is executed tick by tick in the circuit-network model while the declared inputs are driven through a history of valuations; after each step the circuit must settle within a bound derived from the blueprint and every exported name must carry the value (and type where the language fixes it) computed by an independent reference interpreter. Evidence, not proof.",
        note="Trusted base: the Factorio 2.0 circuit-network model (factosim/world.py, written from documentation, cannot be validated against the game offline) and the reference interpreter (factosim/lang.py). A run is excluded (and counted, per tag) only when the program text has the static trigger of a reproduced known finding AND the blueprint shows its structure (DESIGN.md §13.4).",
        ref="DESIGN.md §8 C01",
    ),
    "C03": dict(
        engine="factosim-exec",
        text="Seeded exploration over histories: programs with 1-3 write-gated cells are compiled under an injected layout fault plan; exactly one declared input changes per step and is held past the settle bound computed from the blueprint; after every step each cell's directly exported read, every computed reader and every lamp condition is compared with a sample-and-hold reference cell stepped once per history step; stability after settling is monitored for extra ticks. Race steps (one input reaching enable and data while the enable turns off) and power-up pulses of computed enables are relaxed and counted.",
        note="Trusted base: world model + reference interpreter. Enables are generated hazard-free (each input at most once) and never negative; static-hazard enables are outside the checked class (DESIGN.md §12).",
        ref="DESIGN.md §8 C03",
    ),
    "C04": dict(
        engine="factosim-exec",
        text="Seeded exploration, tick-exact: programs with unconditionally self-written cells (nested, named-intermediate, projection and conditional-value forms, optimisation on and off) are compiled under an injected layout fault plan and run free from the paste state for 60-200 ticks with inputs held; the per-tick trace on the cell's directly exported read must satisfy value(t+L) = f_ref(value(t)) for one fixed L at every tick after the power-up transient, and computed readers must follow the cell with a fixed delay.",
        note="Trusted base: world model + reference interpreter. The power-up transient (inputs reaching the ring through intermediate combinators) is bounded by the blueprint's combinator count and not judged.",
        ref="DESIGN.md §8 C04",
    ),
    "C05": dict(
        engine="factosim-exec",
        text="Seeded exploration over boundary histories: latch programs (both argument orders; boolean inputs, comparisons on one shared input - the inlined path -, on different inputs, mixed; v = 1, constants, signals) are compiled under an injected layout fault plan; one input per step walks over threshold-1/threshold/threshold+1 and far values; after each settled step the exported read is compared with a 4-row state machine carrying the declared priority. A step in which one input drops both lines at once is relaxed and counted.",
        note="Trusted base: world model (decider rows: AND binds tighter than OR) + reference interpreter. Set/reset values are generated 0/1 (the statement speaks of boolean signals and comparisons).",
        ref="DESIGN.md §8 C05",
    ),
    "C08": dict(
        engine="factosim-exec",
        text="Seeded exploration over layout outcomes (the flagship for fault injection): placement, memory, latch and scalar programs are compiled under every compile-side fault kind - deterministic CP-SAT at several budgets/seeds, injected UNKNOWN results for the first k or all solves, first-solution stop, perturbed-objective feasible points that spread entities, forced relay-routing failures driving the retry loop -, all pole options, optimisation on/off and several hash seeds; the emitted JSON is checked against game data: pairwise-disjoint collision boxes, every wire on existing connectors of one colour, wire length within the reach of both ends, and - against a relay-free reference build of the same program - no network of the build lies across two reference networks through pole wires.",
        note="Trusted base: game data shipped with draftsman (collision boxes, reach), centre-to-centre wire length as the game measures it, entity order of the emitter for matching the two builds. Perturbed-objective layouts are legal feasible answers but may be unlikely for the real solver; evidence reports fired fault kinds.",
        ref="DESIGN.md §8 C08",
    ),
    "C09": dict(
        engine="factosim-exec",
        text="Seeded exploration over layout outcomes: programs placing entities at literal / int-variable / loop-iterator / arithmetic coordinates (negative tiles, multi-tile prototypes, wired and unwired, in loops) are compiled under the C08 fault space and pole options; the multiset of (prototype, top-left tile, whitelisted static properties) of all non-compiler entities must equal the placements computed by the reference unroller.",
        note="Trusted base: reference interpreter's loop/arith semantics, tile sizes from game data. Static properties are only compared for station, always_on, use_colors.",
        ref="DESIGN.md §8 C09",
    ),
    "C18": dict(
        engine="factosim-exec",
        text="Seeded exploration with a twin build: programs are compiled with --power-poles T (all four types) under a fault plan and again without poles under another plan; from game data: every electric consumer intersects the supply square of a pole of type T, copper wires within reach of both ends, one electric network, no unwired pole without the option; user entities unchanged (C09 oracle) and identical settled outputs / entity conditions of both builds over a shared input history in the circuit model. Coverage and connectivity are not judged while the corresponding known findings reproduce.",
        note="Trusted base: game data (supply_area_distance, maximum_wire_distance, energy_source), world model for the behaviour twin.",
        ref="DESIGN.md §8 C18",
    ),
    "C19": dict(
        engine="factosim-exec",
        text="Seeded stateful exploration: histories of 2-8 operations (compile one of several programs - including edited versions of one program back to back - under options and a solver/routing fault plan, chdir, recompile) run inside one process per run, in interpreters started with different PYTHONHASHSEED values; after every compile the outcome class and the canonical logical circuit (positions, relay poles, numbering erased; WL colour-refinement hash of entity configurations + connector partition) are compared with a fresh-process, hash-seed-0, default-mode compile of the same source on the same tree. Reduced determinism self-test of the simulator itself is part of the quick tier.",
        note="Trusted base: canonicalisation (isomorphic circuits always hash equal; collisions can only hide a difference). No golden files - the reference is recomputed from the current tree (one reference interpreter per worker, hash seed 0, which never compiles itself: every reference job runs in a child forked from its pristine post-import state).",
        ref="DESIGN.md §8 C19",
    ),
    "C02": dict(
        engine="factosim-exec",
        text="Seeded exploration: stateless bundle programs (literals from inputs / constants / computed members / nested and merged bundles, each-arithmetic with constant and signal scalars incl. a scalar on a member's own type, filters, gating, any/all alone and inside folded conditions, selection) are compiled under an injected layout fault plan and executed in the circuit model over an input history; the whole anchor network of every exported bundle must equal the reference map of non-zero members (so leaked members are visible), scalar results as in C01. Runs showing the structural or static trigger of a reproduced known finding are excluded and counted (a large share of this workload on the current tree).",
        note="Trusted base: world model semantics of each / anything / everything, reference interpreter. Bundle members are generated on explicit types only.",
        ref="DESIGN.md §8 C02",
    ),
    "C06": dict(
        engine="factosim-exec",
        text="Seeded exploration: programs placing circuit-controllable entities whose enable is an inlinable comparison, a named comparison also used elsewhere, an arbitrary expression, any()/all() of a bundle or a selection from a container's .output (incl. balanced-loader shapes that reuse .output in several merges) are compiled under an injected layout fault plan; input values and container contents (environment-driven emitters on shared buses) change over a history; after each settled step the truth of every placed entity's circuit condition on the networks really wired to it must equal (expr_ref > 0).",
        note="Trusted base: world model (entity conditions on red+green sums, anything/everything), reference interpreter; entities matched by prototype and tile.",
        ref="DESIGN.md §8 C06",
    ),
    "C10": dict(
        engine="factosim-exec",
        text="Seeded twin co-simulation: one source from the scalar, repeated-subexpression, bundle, gated-cell, latch, entity and self-referential families is compiled with optimisation on and off, each under its own injected fault plan, and both builds are driven by the same schedule in the circuit model; every output anchor and entity condition is compared at every settle point, per-tick traces of free-running cells modulo one constant shift per observation point; acceptance must not depend on the setting.",
        note="Trusted base: world model; observation points matched by declared name / prototype+tile. Equal wrong behaviour of both builds is not a C10 matter.",
        ref="DESIGN.md §8 C10",
    ),
    "C12": dict(
        engine="factosim-exec",
        text="Seeded twin co-simulation over interleavings: pairs (P, Q) from the scalar, gated-cell, latch and entity families with disjoint names, overlapping signal types and shifted user entities; a seeded order-preserving interleaving of their statements is compiled together and P, Q alone, each under its own fault plan; all three builds run in lock step while P's input history is driven with Q held and vice versa; P's (Q's) output anchors and entity conditions inside the combination must equal those of P (Q) alone at every settle point.",
        note="Trusted base: world model; observation points matched by declared name / prototype+tile.",
        ref="DESIGN.md §8 C12",
    ),
    "C15": dict(
        engine="factosim-exec",
        text="Seeded twin co-simulation: programs with functions (int / Signal parameters, entity-returning functions, locals incl. names shadowing outer ones, local memories and places, nested calls, calls inside loops, several call sites) and their manually inlined twins (parameters bound, locals renamed apart per call site, return expression in place of the call - produced by the generator's own inliner) are compiled under independent fault plans and driven by one input history; output anchors compared as multisets per name group, entity conditions and user-placed entities by prototype and tile; bodies with local memories are compared tick by tick.",
        note="Trusted base: the generator-side inliner and world model. Multiset comparison per name group can miss a permutation but cannot raise a false alarm.",
        ref="DESIGN.md §8 C15",
    ),
    "C16": dict(
        engine="factosim-exec",
        text="Seeded twin co-simulation: programs with loops (ranges incl. negative / empty / descending / non-dividing steps, int-variable bounds, list iterators, nesting <= 3; bodies using the iterator in arithmetic, comparisons, signal-literal values and coordinates, placing entities, declaring memories, calling functions) and the reference unrolling with per-iteration fresh names are compiled under independent fault plans and driven by one input history; anchors compared as multisets per name group, entity conditions by tile, user-placed entities against the reference unroller (C09 oracle); memory-declaring bodies are compared tick by tick.",
        note="Trusted base: the reference unroller (documented range semantics: exclusive end, default step 1) and world model.",
        ref="DESIGN.md §8 C16",
    ),
    "C07": dict(
        engine="factosim-cli",
        text="Seeded exploration of the I/O path with real processes: for each seeded program a sampled part of the invocation matrix {dsl_compiler.cli, python -m dsl_compiler, compile.py} x {file, -i} x {string, --json} x {stdout, -o, -o into a not-yet-existing directory} x {--no-optimize} x {--power-poles T} x {--name} is run as subprocesses made repeatable by a sitecustomize solver shim; each output must exit 0, decode (base64+zlib+JSON / JSON), agree between the string and --json forms, contain every placement of the in-process layout plan of the same source (captured by an observer around BlueprintEmitter.emit_from_plan) at its position with its complete configuration (operands, operation, conditions, outputs, network selections, constant sections, circuit conditions) and every planned wire, and equal the blueprint the API returns, whose behaviour the other properties execute.",
        note="Trusted base: the plan-to-JSON expectation table in factosim/props/c07.py; determinism of the shimmed solver (asserted: subprocess text == in-process blueprint).",
        ref="DESIGN.md §8 C07",
        technique="deterministic simulation with fault injection: real CLI subprocesses under a deterministic solver shim over a seeded invocation matrix; decoded text checked against the captured layout plan and the API blueprint",
    ),
    "C17": dict(
        engine="factosim-exec",
        text="Seeded exploration of the import path and the library: (A) import histories on a real scratch file system - chains, diamonds, cycles, one file under two spellings (sub/../x), files next to an importer in a sub-directory, the bundled library under both documented spellings - compiled from 2-3 working directories each; every compile must terminate (wall-bounded), define each function once, and yield the canonical circuit of the pasted twin; (B) every function of lib/math.facto is called on typed inputs, compiled under an injected layout fault plan and executed in the circuit model over boundary-biased int32 argument tuples restricted to the documented non-overflowing domain; the settled result must equal the documented mathematical definition.",
        note="Trusted base: the pasted-twin expander and the table of documented definitions in factosim/props/c17.py; world model.",
        ref="DESIGN.md §8 C17",
    ),
}

NOT_YET = {}

NOT_APPLICABLE = {
    "C11": "pure function int32 x int32 -> int32 evaluated twice (folder vs run-time arithmetic); no state, clock, schedule, fault or I/O can change either side, so simulation adds nothing over plain differential evaluation (DESIGN.md §9)",
    "C13": "signal allocation is a deterministic function of the program text, decided before layout; the renaming twin is stateless input generation with no schedule, fault or history dimension (DESIGN.md §9)",
    "C14": "rejection happens in the front end before any layout, solver, file or clock is involved: a pure predicate on program text; its one history-dependent aspect (acceptance after an earlier compilation polluted the global signal table) is decided under C19 (DESIGN.md §9)",
    "C20": "static labelling / anchor bookkeeping of one emitted entity list: a structural predicate on one blueprint with no schedule, time, fault or history in it (DESIGN.md §9)",
}


def main():
    props = [json.loads(l) for l in open(os.path.join(HERE, "properties.jsonl"))]
    checks = []
    na = []
    for p in props:
        pid = p["id"]
        if pid in CLAIMED:
            c = CLAIMED[pid]
            checks.append({
                "property_id": pid,
                "quick_cmd": f"./check {pid} --tier quick",
                "thorough_cmd": f"./check {pid} --tier thorough",
                "evidence_file": f"/verif/evidence/{pid}.json",
                "replay_cmd_template": f"./check {pid} --replay {{path}}",
                "engine": c["engine"],
                "level_claimed": {"category": "exploration", "text": c["text"], "design_ref": c["ref"]},
                "level_note": c["note"],
                "technique": c.get("technique", TECH),
            })
        elif pid in NOT_APPLICABLE:
            na.append({"property_id": pid, "reason": NOT_APPLICABLE[pid]})
        else:
            na.append({"property_id": pid, "reason": NOT_YET.get(pid, "check for this property is not built yet in this snapshot (planned, see DESIGN.md §8); not claimed until it runs")})
    man = {
        "version": 1,
        "setup_cmd": "/venv/bin/python -c \"import lark, draftsman, ortools; print('factosim deps ok')\"",
        "hooks": {
            "guard": "FACTOMPILER_VERIF",
            "enable": "no source hooks: the harness patches module-level seams of the compiler at run time (FACTOMPILER_VERIF=1 is set by ./check for its own processes only)",
            "baseline_off_cmd": "cd /repo && /venv/bin/python -m pytest -ra -q -p no:cacheprovider --timeout=900 --continue-on-collection-errors",
            "source_commits": [],
            "add_only": True,
        },
        "engines": [
            {"name": "factosim-cli", "path": "/verif/factosim/props/c07.py", "serves_properties": ["C07"],
             "kind_free_text": "real CLI subprocesses under a sitecustomize solver shim, scratch file system, decoded output vs captured layout plan"},
            {"name": "factosim-exec", "path": "/verif/factosim", "serves_properties": sorted(k for k in CLAIMED if k != "C07"),
             "kind_free_text": "deterministic simulation: real compiler under owned solver/routing/hash-seed seams, fork-per-run workers, Factorio circuit-network world model, reference interpreter, choice-tape + structural shrinker, replay files"},
        ],
        "checks": checks,
        "not_applicable": na,
        "notes": "See DESIGN.md. Known findings: /verif/known_findings.json. fix: commits in /repo are recorded there as 'fixed'.",
    }
    with open(os.path.join(HERE, "MANIFEST.json"), "w") as fh:
        json.dump(man, fh, indent=1)
    print("claimed", [c["property_id"] for c in checks], "n/a", [n["property_id"] for n in na])


if __name__ == "__main__":
    main()
