#!/bin/sh
# tools/recheck_tests.sh <name> <worktree>: rerun (alone, quiet machine) the tests that failed in the full run of
# confirm_mutant.sh and record the outcome in /verif/seeded/<name>/meta.json
NAME="$1"; WT="$2"
cd "$WT" || exit 2
IDS=$(grep "^FAILED" /tmp/tests_$NAME.log | sed 's/^FAILED //; s/ - .*//')
[ -z "$IDS" ] && { echo "$NAME: no failed tests to recheck"; exit 0; }
echo "$IDS" > /tmp/recheck_ids_$NAME.txt
# shellcheck disable=SC2086
OUT=$(echo "$IDS" | tr '\n' '\0' | xargs -0 timeout 1200 /venv/bin/python -m pytest -q -p no:cacheprovider -n 2 -q 2>&1 | tail -1)
echo "$NAME: rerun of failed tests alone: $OUT"
/venv/bin/python - "$NAME" "$OUT" <<'PY'
import json,sys
name,out=sys.argv[1:3]
p=f'/verif/seeded/{name}/meta.json'
m=json.load(open(p))
m.setdefault('confirmed_by_me',{})['failed_tests_rerun_alone_with_patch']={'tests':open(f'/tmp/recheck_ids_{name}.txt').read().split('\n'),'result':out,'note':'the full run shared the machine with other jobs; the failing tests are doc-example compiles with a hard 30 s subprocess timeout'}
json.dump(m,open(p,'w'),indent=1)
PY
