"""python tools/dbg.py file.facto [poles] : compile, settle, dump (debugging aid)."""
import json
import sys

sys.path.insert(0, "/verif")
from factosim import seam  # noqa: E402
from factosim.dump import dump  # noqa: E402
from factosim.observe import Obs  # noqa: E402
from factosim.world import World  # noqa: E402


def go(src, inputs=None, plan=None, ticks=12, **opts):
    seam.warm()
    r = seam.compile_source(src, plan=plan, **opts)
    if not r["ok"]:
        print("REFUSED", r["stage"], r["error"])
        return None
    w = World(r["bp"])
    o = Obs(w)
    for k, v in (inputs or {}).items():
        o.set_input(k, v)
    print("settle", w.settle(ticks))
    print(dump(w))
    return w, o


if __name__ == "__main__":
    go(open(sys.argv[1]).read(), poles=sys.argv[2] if len(sys.argv) > 2 else None)
