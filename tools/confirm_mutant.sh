#!/bin/sh
# tools/confirm_mutant.sh <name> <worktree> [property]  : confirm a seeded change in its scratch worktree and store it
# under /verif/seeded/<name>/ (patch.diff, demo, meta.json with what was run).
set -u
NAME="$1"; WT="$2"; PROP="${3:-$1}"
OUT=/verif/seeded/$NAME
mkdir -p "$OUT"
cd "$WT" || exit 2
DEMO=_mutant/demo.py
[ -f "$DEMO" ] || DEMO=_mutant/demo.sh
run_demo() { if [ "${DEMO##*.}" = py ]; then PYTHONPATH="$WT" timeout 900 /venv/bin/python "$DEMO" >/tmp/demo_$NAME.$1.log 2>&1; else timeout 900 sh "$DEMO" >/tmp/demo_$NAME.$1.log 2>&1; fi; echo $?; }
cp _mutant/patch.diff "$OUT/patch.diff"
WITH=$(run_demo with)
git apply -R "$OUT/patch.diff"
WITHOUT=$(run_demo without)
git apply "$OUT/patch.diff"
echo "demo with patch: exit $WITH ; without: exit $WITHOUT"
TESTS="not run"
if [ "${RUN_TESTS:-1}" = 1 ]; then
  timeout 3000 /venv/bin/python -m pytest -q -p no:cacheprovider --timeout=900 -n 12 -q \
    --deselect tests/test_cli.py::TestCliCoverageGaps::test_read_file_error_unreadable_file \
    --deselect tests/test_cli.py::TestCliCoverageGaps::test_write_file_error_unwritable_directory > /tmp/tests_$NAME.log 2>&1
  TESTS=$(tail -1 /tmp/tests_$NAME.log)
  echo "tests with patch: $TESTS"
fi
cp "$DEMO" "$OUT/"
/venv/bin/python - "$OUT" "$PROP" "$WITH" "$WITHOUT" "$TESTS" <<'PY'
import json,sys,os
out,prop,w,wo,tests=sys.argv[1:6]
m={}
p=os.path.join(os.getcwd(),'_mutant','meta.json')
try: m=json.load(open(p))
except Exception: pass
m['property']=prop
m['confirmed_by_me']={'demo_exit_with_patch':int(w),'demo_exit_without_patch':int(wo),'test_suite_with_patch':tests,
  'commands':['PYTHONPATH=<tree> /venv/bin/python _mutant/demo.py (patched tree, then with the change stashed)','/venv/bin/python -m pytest -q -p no:cacheprovider -n 12 (two root-only always-fail tests deselected)']}
json.dump(m,open(os.path.join(out,'meta.json'),'w'),indent=1)
PY
